use vstd::prelude::*;
use std::ops::{Index, Sub};
use std::cmp::Ordering;

verus! {

// ---------------- stand-ins (types the slices do not look into)
#[verifier::external_body] pub struct Path { _p: () }
#[verifier::external_body] pub struct FileId { _p: () }
pub enum DiskKind { HDD, SSD, Unknown(isize) }          // stand-in for sysinfo::DiskKind
pub struct DiskDevice { pub disk_kind: DiskKind }        // only field the helpers read
pub struct GroupCtx { pub devices: Vec<DiskDevice> }   // stand-in: DiskDevices indexes its Vec<DiskDevice>

// ---------------- verbatim from file.rs
#[derive(Clone, Copy, PartialEq, Eq, PartialOrd, Ord, Debug)]
pub struct FilePos(pub u64);

#[derive(Clone, Copy, PartialEq, Eq, PartialOrd, Ord, Debug, Default)]
pub struct FileLen(pub u64);

impl FileLen {
    pub fn as_pos(self) -> (r: FilePos)
        ensures r.0 == self.0
    {
        FilePos(self.0)
    }
}

impl Sub<FileLen> for FilePos {
    type Output = FilePos;
    fn sub(self, rhs: FileLen) -> Self::Output {
        FilePos(self.0 - rhs.0)
    }
}

pub struct FileChunk<'a> {
    pub path: &'a Path,
    pub pos: FilePos,
    pub len: FileLen,
}

impl FileChunk<'_> {
    pub fn new(path: &Path, pos: FilePos, len: FileLen) -> (r: FileChunk<'_>)
        ensures r.pos == pos, r.len == len
    {
        FileChunk { path, pos, len }
    }
}

pub struct FileInfo {
    pub path: Path,
    pub id: FileId,
    pub len: FileLen,
    pub(crate) location: u64,
}

impl FileInfo {
    pub closed spec fn dev_idx(&self) -> usize { (self.location >> 48) as usize }   // sidecar

    pub fn get_device_index(&self) -> (r: usize)
        ensures r == self.dev_idx()
    {
        (self.location >> 48) as usize
    }
}

// ---------------- sidecar meaning of derived / operator impls
impl vstd::std_specs::cmp::PartialEqSpecImpl for FileLen {
    open spec fn obeys_eq_spec() -> bool { true }
    open spec fn eq_spec(&self, other: &FileLen) -> bool { self.0 == other.0 }
}
impl vstd::std_specs::cmp::PartialOrdSpecImpl for FileLen {
    open spec fn obeys_partial_cmp_spec() -> bool { true }
    open spec fn partial_cmp_spec(&self, other: &FileLen) -> Option<Ordering> {
        if self.0 < other.0 { Some(Ordering::Less) } else if self.0 == other.0 { Some(Ordering::Equal) } else { Some(Ordering::Greater) }
    }
}
impl vstd::std_specs::ops::SubSpecImpl<FileLen> for FilePos {
    open spec fn obeys_sub_spec() -> bool { true }
    open spec fn sub_req(self, rhs: FileLen) -> bool { self.0 >= rhs.0 }
    open spec fn sub_spec(self, rhs: FileLen) -> FilePos { FilePos((self.0 - rhs.0) as u64) }
}

// ---------------- verbatim from device.rs
impl DiskDevice {
    pub fn min_prefix_len(&self) -> (r: FileLen)
        ensures r.0 == 4096
    {
        FileLen(match self.disk_kind {
            DiskKind::SSD => 4 * 1024,
            DiskKind::HDD => 4 * 1024,
            DiskKind::Unknown(_) => 4 * 1024,
        })
    }

    pub fn max_prefix_len(&self) -> (r: FileLen)
        ensures 4096 <= r.0 <= 16 * 1024
    {
        FileLen(match self.disk_kind {
            DiskKind::SSD => 4 * 1024,
            DiskKind::HDD => 16 * 1024,
            DiskKind::Unknown(_) => 16 * 1024,
        })
    }

    pub fn suffix_len(&self) -> (r: FileLen)
        ensures r.0 <= 16 * 1024
    {
        self.max_prefix_len()
    }

    pub fn suffix_threshold(&self) -> (r: FileLen)
        ensures r.0 >= 64 * 1024
    {
        FileLen(match self.disk_kind {
            DiskKind::HDD => 64 * 1024 * 1024, // 64 MB
            DiskKind::SSD => 64 * 1024,        // 64 kB
            DiskKind::Unknown(_) => 64 * 1024 * 1024,
        })
    }
}

// ---------------- slice of group_by_prefix (closure body)
fn prefix_slice<'a>(ctx: &GroupCtx, fi: &'a FileInfo, prefix_len: FileLen) -> (chunk: FileChunk<'a>)
    requires fi.dev_idx() < ctx.devices.len(),
    ensures
        chunk.pos.0 == 0,
        fi.len.0 <= prefix_len.0 ==> chunk.len.0 >= fi.len.0,     // small files are hashed completely
{
    // ---- begin slice
    let prefix_len = if fi.len <= prefix_len {
        prefix_len
    } else {
        ctx.devices[fi.get_device_index()].min_prefix_len()
    };
    let chunk = FileChunk::new(&fi.path, FilePos(0), prefix_len);
    // ---- end slice
    chunk
}

// ---------------- slice of group_by_contents (closure body)
fn contents_slice<'a>(fi: &'a FileInfo) -> (chunk: FileChunk<'a>)
    ensures chunk.pos.0 == 0, chunk.len.0 == fi.len.0,
{
    // ---- begin slice
    let chunk = FileChunk::new(&fi.path, FilePos(0), fi.len);
    // ---- end slice
    chunk
}

// ---------------- slice of group_by_suffix (closure body), pre-filter as requires
fn suffix_slice<'a>(fi: &'a FileInfo, suffix_len: FileLen, suffix_threshold: FileLen) -> (chunk: FileChunk<'a>)
    requires fi.len.0 >= suffix_threshold.0,           // pre_filter: g.file_len >= suffix_threshold, fi.len == g.file_len
    ensures chunk.pos.0 + chunk.len.0 == fi.len.0,
{
    // ---- begin slice
    let chunk = FileChunk::new(&fi.path, fi.len.as_pos() - suffix_len, suffix_len);
    // ---- end slice
    chunk
}

}
fn main() {}
