// NOT USED: CBMC times out (900 s) - `log.warn(&e)` displays an io::Error (dyn Error vtable dispatch in Display);
// a second attempt with PathAndMetadata::new stubbed to return a plain ErrorKind error timed out as well (600 s).
// kept as a record of the attempt (DESIGN.md section 10).
//! verif child module of crate::dedupe — C04: a group with a file whose metadata cannot be read any more (deleted,
//! permission lost) is skipped as a whole (bounded stand-in: groups of up to 3 files).
#![allow(static_mut_refs)]
use super::*;
use crate::dedupe::verif_dedupe::{stub_format, NullLog, WARNED};
use crate::file::verif_file::fake_metadata;
use crate::file::FileHash;
use crate::path::verif_path::{p1, tag};

static mut GONE: [bool; 3] = [false; 3]; // whether reading the metadata of file a / b / c fails now
static mut ASKED: [u8; 3] = [0; 3]; // how often the metadata of each file was asked for

/// Assumed contract of FileMetadata::new (lstat): fails for a file that is gone, else returns its current metadata.
fn stub_file_metadata_new(path: &Path) -> io::Result<FileMetadata> {
    let i = (tag(path) - b'a') as usize;
    unsafe {
        ASKED[i] += 1;
        if GONE[i] {
            Err(io::Error::from(io::ErrorKind::NotFound))
        } else {
            Ok(fake_metadata(i as u64))
        }
    }
}

#[kani::proof]
#[kani::stub(crate::file::FileMetadata::new, stub_file_metadata_new)]
#[kani::stub(alloc::fmt::format, stub_format)]
#[kani::unwind(6)]
fn c04_fetch_files_metadata_bounded() {
    let n: usize = kani::any();
    kani::assume(n >= 1 && n <= 3);
    unsafe { GONE = [kani::any(), kani::any(), kani::any()] };
    let mut files = Vec::new();
    files.push(p1(b"a"));
    if n >= 2 {
        files.push(p1(b"b"));
    }
    if n >= 3 {
        files.push(p1(b"c"));
    }
    let group = FileGroup { file_len: FileLen(1), file_hash: FileHash::from(&[0u8; 16][..]), files };
    let log = NullLog;
    let r = fetch_files_metadata(group, &log);
    unsafe {
        let any_gone = GONE[0] || (n >= 2 && GONE[1]) || (n >= 3 && GONE[2]);
        // one unreadable file -> the whole group is skipped (nothing of it reaches partition) and a warning is logged
        assert!(r.is_none() == any_gone, "C04.fetch.group_is_skipped_iff_the_metadata_of_some_file_cannot_be_read");
        assert!(!any_gone || WARNED, "C04.fetch.skipping_is_reported");
        // the metadata used later is read NOW, once per file, for every file of the group
        assert!(ASKED[0] == 1 && (n < 2 || ASKED[1] == 1) && (n < 3 || ASKED[2] == 1),
                "C04.fetch.current_metadata_of_every_file_is_read_once");
        if let Some(g) = &r {
            assert!(g.files.len() == n, "C04.fetch.no_file_is_lost_or_added");
            assert!(tag(&g.files[0].path) == b'a' && (n < 2 || tag(&g.files[1].path) == b'b') && (n < 3 || tag(&g.files[2].path) == b'c'),
                    "C04.fetch.metadata_is_paired_with_its_own_path_in_report_order");
            assert!(g.files[0].metadata.inode_id() == 0 && (n < 2 || g.files[1].metadata.inode_id() == 1) && (n < 3 || g.files[2].metadata.inode_id() == 2),
                    "C04.fetch.metadata_is_paired_with_its_own_path_in_report_order");
        }
        kani::cover!(n == 3 && r.is_none() && !GONE[0], "cover.skipped_because_of_a_later_file");
        kani::cover!(n == 3 && r.is_some(), "cover.kept");
    }
    std::mem::forget(r);
}
