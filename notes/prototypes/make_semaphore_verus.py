#!/usr/bin/env python3
# PROTOTYPE (design-phase measurement F15): builds the Verus input from the real semaphore.rs.
# usage: make_semaphore_verus.py /repo/fclones/src/semaphore.rs > sem.rs ; verus sem.rs
import sys, os
src = open(sys.argv[1]).read()
a = src.index("pub struct Semaphore {"); b = src.index("#[cfg(test)]")
body = "\n".join(l for l in src[a:b].split("\n")
                 if not l.strip().startswith("///") and not l.strip().startswith("#[allow"))
here = os.path.dirname(os.path.abspath(__file__))
pre = open(os.path.join(here, "semaphore_prelude.rs.txt")).read()
pre = pre[:pre.index("// ---- extracted text follows")]
# A9: the counter stays strictly inside isize's range
pre = pre.replace("    ensures r is Ok;\n\npub assume_specification<'a, T> [std::sync::Condvar::wait",
                  "    ensures r is Ok, ival(gref(&r->Ok_0)) < isize::MAX as int, ival(gref(&r->Ok_0)) > isize::MIN as int;\n\npub assume_specification<'a, T> [std::sync::Condvar::wait", 1)
def must(s, old, new):
    assert s.count(old) == 1, "lost anchor: " + old
    return s.replace(old, new)
body = must(body, "        while *count <= 0 {", "        while *count <= 0\n            invariant true,\n        {")
body = must(body, "        *count -= 1;", "        assert(ival(gref(&count)) > 0); // C19.acquire_positive\n        *count -= 1;")
body = must(body, "    pub fn acquire(&self) {", "    #[verifier::exec_allows_no_decreases_clause]\n    pub fn acquire(&self) {\n        broadcast use ival_isize;")
body = must(body, "    pub fn release(&self) {", "    pub fn release(&self) {\n        broadcast use ival_isize;")
# the two Drop impls (single statement `self.sem.release();`) are excluded from verification
body = must(body, "impl Drop for SemaphoreGuard<'_> {", "#[verifier::external]\nimpl Drop for SemaphoreGuard<'_> {")
body = must(body, "impl Drop for OwnedSemaphoreGuard {", "#[verifier::external]\nimpl Drop for OwnedSemaphoreGuard {")
sys.stdout.write(pre + body + "\n}\nfn main() {}\n")
