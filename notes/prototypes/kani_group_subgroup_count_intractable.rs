//! verif child module of crate::group — bounded stand-ins for the replica count (C06): the real
//! FileGroup::subgroup_count / FileSubGroup::group on small concrete scenarios (the IndexMap-based grouping does not
//! finish in CBMC for symbolic placements, DESIGN F10), against the counting rule of the property: all paths under one
//! --isolate root are one replica; outside the roots hard links (same file id) are one replica unless --match-links.
use super::*;
use crate::path::verif_path::{p1, p2};

fn mk(dir: &[u8], name: u8, id: u64) -> FileInfo {
    FileInfo { path: p2(dir, &[name]), id: FileId { device: 1, inode: id as crate::file::InodeId }, len: FileLen(1), location: 0 }
}

fn count(files: Vec<FileInfo>, roots: Vec<Path>, group_by_id: bool) -> usize {
    let g = FileGroup { file_len: FileLen(1), file_hash: FileHash::from(0u128), files };
    let filter = FileGroupFilter { replication: Replication::Overreplicated(1), root_paths: roots, group_by_id };
    let c = g.subgroup_count(&filter);
    std::mem::forget(g);
    std::mem::forget(filter);
    c
}

/// --isolate with --match-links: two paths under the same root are ONE replica, a path under another root a second one.
#[kani::proof]
#[kani::unwind(8)]
fn c06_count_isolate_match_links_scenario() {
    let c = count(vec![mk(b"A", b'x', 1), mk(b"A", b'y', 2), mk(b"B", b'z', 3)], vec![p1(b"A"), p1(b"B")], false);
    assert!(c == 2, "C06.subgroup_count.paths_under_one_isolated_root_are_one_replica_even_with_match_links");
    kani::cover!(true, "cover.reached");
}

/// --match-links without roots: every path counts, also hard links of one file.
#[kani::proof]
#[kani::unwind(8)]
fn c06_count_match_links_scenario() {
    let c = count(vec![mk(b"A", b'x', 1), mk(b"A", b'y', 1)], vec![], false);
    assert!(c == 2, "C06.subgroup_count.match_links_counts_every_path");
    kani::cover!(true, "cover.reached");
}
