// NOT USED: ends as 'verification failed' without a parsed failing check after ~230 s (like the strip_root attempt: both go
// through Path::root / resolve); classified as a tool limit, never as a violation. Kept as a record.

/// With --isolate the roots of the filter are the input paths, in the order given (bounded stand-in: two absolute input
/// paths, so `base_dir.resolve` returns them as they are; paths given on the command line, not --stdin).
#[kani::proof]
#[kani::unwind(6)]
fn c06_group_filter_isolate_bounded() {
    use crate::path::verif_path::{depth, p1, p2, tag};
    let (x, y): (u8, u8) = (kani::any(), kani::any());
    kani::assume(x != 0 && x != b'/' && y != 0 && y != b'/');
    let c = GroupConfig {
        isolate: true,
        stdin: false,
        base_dir: p1(b"/"),
        paths: vec![p2(b"/", &[x]), p2(b"/", &[y])],
        ..GroupConfig::default()
    };
    let f = c.group_filter();
    assert!(f.root_paths.len() == 2, "C06.group_filter.with_isolate_every_input_path_is_a_root");
    assert!(tag(&f.root_paths[0]) == x && tag(&f.root_paths[1]) == y && depth(&f.root_paths[0]) == 2 && depth(&f.root_paths[1]) == 2,
            "C06.group_filter.roots_are_the_input_paths_in_the_order_given");
    kani::cover!(x != y, "cover.two_roots");
    std::mem::forget(f);
    std::mem::forget(c);
}
