use vstd::prelude::*;

verus! {

#[derive(Clone, Copy, PartialEq, Eq, PartialOrd, Ord, Debug, Default)]
pub struct FileLen(pub u64);

impl vstd::std_specs::cmp::PartialEqSpecImpl for FileLen {
    open spec fn obeys_eq_spec() -> bool { true }
    open spec fn eq_spec(&self, other: &FileLen) -> bool { self.0 == other.0 }
}

#[verifier::external_body] pub struct FileHash { _p: () }

struct CachedFileInfo {
    modified_timestamp_ms: u64,
    file_len: FileLen,
    data_len: FileLen,
    hash: FileHash,
}

fn get_guard(value: CachedFileInfo, modified: u64, metadata_len: FileLen) -> (r: Option<(FileLen, FileHash)>)
    ensures
        r is Some <==> (value.modified_timestamp_ms == modified && value.file_len.0 == metadata_len.0),
        r is Some ==> r.unwrap().0.0 == value.data_len.0,
{
    if value.modified_timestamp_ms != modified || value.file_len != metadata_len {
        None
    } else {
        Some((value.data_len, value.hash))
    }
}

}
fn main() {}
