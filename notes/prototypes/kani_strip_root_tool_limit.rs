// NOT USED: ends with 'only tool-limit checks failed' after 180-230 s (unwind 6 and 10); kept as a record.

/// C18: `strip_root` (what `move` re-creates under the target directory) keeps the bytes of the remaining components
/// exactly: any byte a Unix file name may contain, including ':' , '\\' and non-UTF-8 bytes (bounded stand-in).
#[kani::proof]
#[kani::unwind(10)]
fn c18_strip_root_keeps_name_bytes_bounded() {
    use crate::path::verif_path::{depth, last_len, tag};
    let b = byte();
    let abs = std::mem::ManuallyDrop::new(p2(b"/", &[b]));
    assert!(abs.root().is_some(), "C18.strip_root.a_path_below_the_root_directory_is_absolute");
    let s = std::mem::ManuallyDrop::new(abs.strip_root());
    assert!(depth(&s) == 1 && last_len(&s) == 1 && tag(&s) == b, "C18.strip_root.absolute_path_loses_only_its_root_bytes_kept");
    let rel = std::mem::ManuallyDrop::new(p2(b"s", &[b]));
    assert!(rel.root().is_none(), "C18.strip_root.a_path_without_root_component_is_relative");
    let r = std::mem::ManuallyDrop::new(rel.strip_root());
    assert!(depth(&r) == 2 && last_len(&r) == 1 && tag(&r) == b, "C18.strip_root.relative_path_is_kept_whole");
    kani::cover!(b == b':', "cover.colon");
    kani::cover!(b == 0xff, "cover.non_utf8");
}
