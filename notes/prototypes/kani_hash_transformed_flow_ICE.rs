// Attempted unit for FileHasher::hash_transformed (C12/C01): Kani ICE (intrinsics.rs:243) because the drop glue of
// transform::Execution contains JoinHandle<String> -> Packet::drop -> catch_unwind. Kept for reference.

// ---------------------------------------------------------------------------------------------------------
// support for the hasher unit c12_hash_transformed_flow: a fabricated `Execution` (private fields) whose child
// process is never really waited for (std::process::Child::wait is stubbed there) and whose output stream is empty.

struct EmptyStream;

impl Read for EmptyStream {
    fn read(&mut self, _buf: &mut [u8]) -> io::Result<usize> {
        Ok(0)
    }
}

pub(crate) static mut TRANSFORM_RUNS: u32 = 0;
pub(crate) static mut TRANSFORM_SPAWN_FAILS: bool = false;

/// Assumed contract of `Transform::run`: spawns the program (or fails) and returns the handles of the execution.
pub(crate) fn stub_transform_run(_t: &Transform, input: &Path) -> io::Result<Execution> {
    unsafe {
        TRANSFORM_RUNS += 1;
        if TRANSFORM_SPAWN_FAILS {
            return Err(io::Error::from(io::ErrorKind::NotFound));
        }
        let child: Child = std::mem::MaybeUninit::<Child>::zeroed().assume_init();
        let handle: JoinHandle<String> = {
            let mut h = std::mem::MaybeUninit::<JoinHandle<String>>::uninit();
            std::ptr::write_bytes(h.as_mut_ptr(), 1, 1);
            h.assume_init()
        };
        Ok(Execution {
            child: Arc::new(Mutex::new(child)),
            out_stream: Box::new(EmptyStream),
            err_stream: Some(handle),
            _input: Input::StdIn(input.to_path_buf()),
            _output: Output::StdOut,
        })
    }
}

pub(crate) fn fake_transform() -> Transform {
    Transform { command_str: String::new(), tmp_dir: PathBuf::from("/t"), copy: false, in_place: false, program: String::new() }
}

pub(crate) fn stub_remove_dir_all_quiet<P: AsRef<std::path::Path>>(_path: P) -> io::Result<()> {
    Ok(())
}

// ---- hasher side

// ---------------------------------------------------------------------------------------------------------
// C12.hash_transformed_flow — FileHasher::hash_transformed over the ghost cache: a hash is stored only after the
// transform program has exited successfully; a failed transform yields an error and leaves the cache untouched.

static mut EXIT_OK: bool = true;
static mut WAIT_FAILS: bool = false;
static mut STREAM_HASHED: u32 = 0;
static mut PUT_BEFORE_EXIT_CHECK: bool = false;
static mut WAITED: bool = false;
const TRANSFORMED_LEN: u64 = 5;

fn stub_child_wait(_c: &mut std::process::Child) -> io::Result<std::process::ExitStatus> {
    use std::os::unix::process::ExitStatusExt;
    unsafe {
        WAITED = true;
        if WAIT_FAILS {
            return Err(io::Error::from(io::ErrorKind::Other));
        }
        Ok(std::process::ExitStatus::from_raw(if EXIT_OK { 0 } else { 256 }))
    }
}

fn stub_join<T>(h: std::thread::JoinHandle<T>) -> std::thread::Result<T> {
    std::mem::forget(h);
    Err(Box::new(()))
}

fn stub_format_output_stream(_s: &str) -> String {
    String::new()
}

fn stub_stream_hash<H: StreamHasher>(
    _stream: &mut impl Read,
    _len: FileLen,
    _buf_len: usize,
    _progress: impl Fn(usize),
) -> io::Result<(FileLen, FileHash)> {
    unsafe {
        STREAM_HASHED += 1;
        if COMPUTE_FAILS {
            return Err(io::Error::from(io::ErrorKind::Other));
        }
    }
    Ok((FileLen(TRANSFORMED_LEN), FileHash::from(FRESH)))
}

fn stub_cache_put_transformed(_c: &HashCache, key: &Key, _m: &FileMetadata, data_len: FileLen, hash: FileHash) -> Result<(), Error> {
    unsafe {
        PUT_CALLS += 1;
        if !WAITED {
            PUT_BEFORE_EXIT_CHECK = true;
        }
        if !key_is_for_this_chunk(key) {
            PUT_KEY_OK = false;
        }
        if !(data_len.0 == TRANSFORMED_LEN && hash.u128_prefix() == FRESH) {
            PUT_VALUE_OK = false;
        }
    }
    std::mem::forget(hash);
    Ok(())
}

#[kani::proof]
#[kani::stub(alloc::fmt::format, stub_format)]
#[kani::stub(crate::file::FileMetadata::new, stub_file_metadata_new)]
#[kani::stub(crate::cache::HashCache::get, stub_cache_get)]
#[kani::stub(crate::cache::HashCache::put, stub_cache_put_transformed)]
#[kani::stub(stream_hash, stub_stream_hash)]
#[kani::stub(format_output_stream, stub_format_output_stream)]
#[kani::stub(crate::transform::Transform::run, crate::transform::verif_transform::stub_transform_run)]
#[kani::stub(std::process::Child::wait, stub_child_wait)]
#[kani::stub(std::thread::JoinHandle::join, stub_join)]
#[kani::stub(std::fs::remove_dir_all, crate::transform::verif_transform::stub_remove_dir_all_quiet)]
#[kani::unwind(20)]
fn c12_hash_transformed_flow() {
    let cached: bool = kani::any();
    unsafe {
        METADATA_AVAILABLE = kani::any();
        SLOT_HIT = kani::any();
        COMPUTE_FAILS = kani::any();
        EXIT_OK = kani::any();
        WAIT_FAILS = kani::any();
        crate::transform::verif_transform::TRANSFORM_SPAWN_FAILS = kani::any();
        crate::transform::verif_transform::TRANSFORM_RUNS = 0;
        CHUNK_POS = 0;
        CHUNK_LEN = kani::any();
        GET_CALLS = 0;
        PUT_CALLS = 0;
        STREAM_HASHED = 0;
        WAITED = false;
        PUT_BEFORE_EXIT_CHECK = false;
        PUT_KEY_OK = true;
        PUT_VALUE_OK = true;
        GET_KEY_OK = true;
    }
    let log = NullLog;
    let mut hasher = FileHasher::new(HashFn::Metro, None, &log);
    unsafe { std::ptr::write(&mut hasher.transform, Some(crate::transform::verif_transform::fake_transform())) };
    if cached {
        let mut c = std::mem::MaybeUninit::<HashCache>::uninit();
        unsafe { std::ptr::write_bytes(c.as_mut_ptr(), 1, 1) };
        unsafe { std::ptr::write(&mut hasher.cache, Some(c.assume_init())) };
    }
    let path = p1(b"f");
    let chunk = FileChunk::new(&path, FilePos(0), FileLen(unsafe { CHUNK_LEN }));
    let r = hasher.hash_transformed(&chunk, |_| {});
    let got = match &r {
        Ok((l, h)) => Some((l.0, h.u128_prefix())),
        Err(_) => None,
    };
    std::mem::forget(r);
    std::mem::forget(hasher);
    unsafe {
        let usable = cached && METADATA_AVAILABLE;
        let runs = crate::transform::verif_transform::TRANSFORM_RUNS;
        let spawn_fails = crate::transform::verif_transform::TRANSFORM_SPAWN_FAILS;
        if usable && SLOT_HIT {
            assert!(got == Some((CHUNK_LEN, STORED)) && runs == 0, "C12.hash_transformed.hit_returns_stored_value_without_running_the_transform");
            assert!(PUT_CALLS == 0, "C12.hash_transformed.hit_does_not_rewrite");
        } else {
            let success = !spawn_fails && !COMPUTE_FAILS && !WAIT_FAILS && EXIT_OK;
            assert!(runs == 1, "C12.hash_transformed.miss_runs_the_transform_once");
            assert!(got.is_some() == success, "C12.hash_transformed.failed_transform_is_an_error");
            assert!(PUT_CALLS == if usable && success { 1 } else { 0 }, "C12.hash_transformed.only_results_of_successful_transforms_are_cached");
            assert!(!PUT_BEFORE_EXIT_CHECK, "C12.hash_transformed.cached_only_after_the_exit_status_is_known");
            if success {
                assert!(got == Some((TRANSFORMED_LEN, FRESH)), "C12.hash_transformed.returns_length_and_hash_of_the_transformed_stream");
            }
        }
        assert!(GET_KEY_OK && PUT_KEY_OK && PUT_VALUE_OK, "C12.hash_transformed.key_and_value_stored");
        kani::cover!(usable && !SLOT_HIT && PUT_CALLS == 1, "cover.miss_stored");
        kani::cover!(usable && !SLOT_HIT && !EXIT_OK && !spawn_fails && !COMPUTE_FAILS && !WAIT_FAILS, "cover.transform_failed");
        kani::cover!(usable && SLOT_HIT, "cover.hit");
    }
}
