use vstd::prelude::*;

verus! {

// ---- opaque stand-ins for types the kernels do not look into
#[verifier::external_body] pub struct Path { _p: () }
#[verifier::external_body] pub struct FileId { _p: () }
#[verifier::external_body] pub struct FileHash { _p: () }
pub struct FileLen(pub u64);

// ---- verbatim from group.rs (derive lines and doc comments dropped)
pub struct FileGroup<F> {
    pub file_len: FileLen,
    pub file_hash: FileHash,
    pub files: Vec<F>,
}

pub enum Replication {
    Underreplicated(usize),
    Overreplicated(usize),
}

pub struct FileGroupFilter {
    pub replication: Replication,
    pub root_paths: Vec<Path>,
    pub group_by_id: bool,
}

pub uninterp spec fn spec_subgroup_count<F>(g: &FileGroup<F>, filter: &FileGroupFilter) -> nat;

impl<F> FileGroup<F> {
    #[verifier::external_body]
    fn subgroup_count(&self, filter: &FileGroupFilter) -> (r: usize)
        ensures r as nat == spec_subgroup_count(self, filter)
    { unimplemented!() }

    pub fn matches(&self, filter: &FileGroupFilter) -> (r: bool)
        ensures r == match filter.replication {
            Replication::Overreplicated(rf) => spec_subgroup_count(self, filter) > rf,
            Replication::Underreplicated(_) => true,
        }
    {
        match filter.replication {
            Replication::Overreplicated(rf) => self.subgroup_count(filter) > rf,
            Replication::Underreplicated(_) => true,
        }
    }

    pub fn matches_strictly(&self, filter: &FileGroupFilter) -> (r: bool)
        ensures r == match filter.replication {
            Replication::Overreplicated(rf) => spec_subgroup_count(self, filter) > rf,
            Replication::Underreplicated(rf) => spec_subgroup_count(self, filter) < rf,
        }
    {
        let count = self.subgroup_count(filter);
        match filter.replication {
            Replication::Overreplicated(rf) => count > rf,
            Replication::Underreplicated(rf) => count < rf,
        }
    }

    pub fn missing_count(&self, filter: &FileGroupFilter) -> (r: usize)
        ensures r as int == match filter.replication {
            Replication::Overreplicated(_) => 0int,
            Replication::Underreplicated(rf) => if rf as int >= spec_subgroup_count(self, filter) as int { rf as int - spec_subgroup_count(self, filter) as int } else { 0int },
        }
    {
        match filter.replication {
            Replication::Overreplicated(_) => 0,
            Replication::Underreplicated(rf) => rf.saturating_sub(self.subgroup_count(filter)),
        }
    }
}

}
fn main() {}
