use vstd::prelude::*;
use std::ops::Sub;
use std::cmp::Ordering;

verus! {

#[derive(Clone, Copy, PartialEq, Eq, PartialOrd, Ord, Debug)]
pub struct FilePos(pub u64);

#[derive(Clone, Copy, PartialEq, Eq, PartialOrd, Ord, Debug, Default)]
pub struct FileLen(pub u64);

// assumed specifications of the derived impls (newtype over u64)
impl vstd::std_specs::cmp::PartialEqSpecImpl for FileLen {
    open spec fn obeys_eq_spec() -> bool { true }
    open spec fn eq_spec(&self, other: &FileLen) -> bool { self.0 == other.0 }
}
impl vstd::std_specs::cmp::PartialOrdSpecImpl for FileLen {
    open spec fn obeys_partial_cmp_spec() -> bool { true }
    open spec fn partial_cmp_spec(&self, other: &FileLen) -> Option<Ordering> {
        if self.0 < other.0 { Some(Ordering::Less) } else if self.0 == other.0 { Some(Ordering::Equal) } else { Some(Ordering::Greater) }
    }
}
impl vstd::std_specs::ops::SubSpecImpl<FileLen> for FilePos {
    open spec fn obeys_sub_spec() -> bool { true }
    open spec fn sub_req(self, rhs: FileLen) -> bool { self.0 >= rhs.0 }
    open spec fn sub_spec(self, rhs: FileLen) -> FilePos { FilePos((self.0 - rhs.0) as u64) }
}

impl FileLen {
    pub fn as_pos(self) -> (r: FilePos)
        ensures r.0 == self.0
    {
        FilePos(self.0)
    }
}

impl Sub<FileLen> for FilePos {
    type Output = FilePos;
    fn sub(self, rhs: FileLen) -> Self::Output {
        FilePos(self.0 - rhs.0)
    }
}

fn suffix_chunk(fi_len: FileLen, suffix_len: FileLen, suffix_threshold: FileLen) -> (r: Option<(FilePos, FileLen)>)
    requires suffix_len.0 <= suffix_threshold.0,
    ensures r is Some ==> r.unwrap().0.0 + r.unwrap().1.0 == fi_len.0,
{
    if fi_len >= suffix_threshold {
        Some((fi_len.as_pos() - suffix_len, suffix_len))
    } else {
        None
    }
}

}
fn main() {}
