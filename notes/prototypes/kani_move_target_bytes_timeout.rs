// NOT USED: both variants time out (600 s and 900 s) in CBMC - Path::join/components (SmallVec, CString) with one
// symbolic byte is already too much; kept as a record of the attempt (DESIGN.md section 10).
//! verif child module of crate::dedupe — C18: `move_target` keeps the bytes of the moved path (bounded stand-in).
#![allow(static_mut_refs)]
use super::*;
use crate::path::verif_path::{depth, last_len, p1, p2, root_tag, tag};

fn harness(abs: bool) {
    let b: u8 = kani::any();
    kani::assume(b != 0 && b != b'/');
    let src = std::mem::ManuallyDrop::new(if abs { p2(b"/", &[b]) } else { p2(b"s", &[b]) });
    let dir = std::mem::ManuallyDrop::new(Arc::new(p1(b"D")));
    let t = std::mem::ManuallyDrop::new(PartitionedFileGroup::move_target(&dir, &src));
    assert!(last_len(&t) == 1 && tag(&t) == b, "C18.move_target.file_name_bytes_are_kept_exactly");
    assert!(root_tag(&t) == b'D', "C18.move_target.target_is_under_the_target_directory");
    if !abs {
        assert!(depth(&t) == 3, "C18.move_target.relative_source_keeps_all_its_components");
    } else {
        assert!(depth(&t) == 2 || depth(&t) == 3, "C18.move_target.absolute_source_loses_only_its_root");
    }
    kani::cover!(b == b':', "cover.colon_in_name");
    kani::cover!(b == 0xff, "cover.non_utf8_name");
}

/// One symbolic byte as the file name (any byte a Unix file name may contain: ':' , '\\', non-UTF-8 bytes, ...) below
/// "s" (relative source): the target is DIR/s/<the same byte>.
#[kani::proof]
#[kani::unwind(8)]
fn c18_move_target_relative_keeps_name_bytes_bounded() {
    harness(false)
}

/// The same below "/" (absolute source): the target is DIR[/<root-derived>]/<the same byte>.
#[kani::proof]
#[kani::unwind(8)]
fn c18_move_target_absolute_keeps_name_bytes_bounded() {
    harness(true)
}
