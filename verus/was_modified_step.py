"""C04: Verus on the body of the loop of dedupe::was_modified: a file whose modification time is later than the limit,
or cannot be read, marks the group as modified; nothing resets the mark."""
import re
from vf.verus_run import Source, Piece, UnitBuild, LostAnchor

NAME = "was_modified_step"

PRELUDE = r'''// Verus input of unit was_modified_step. Hand-written: stand-ins, wrapper signature, contract.
use vstd::prelude::*;
use std::cmp::Ordering;

verus! {

// stand-ins for chrono / std time types: a point in time is a ghost integer; conversions keep it; comparison is by time
pub struct Local;
pub struct SystemTime { pub ghost t: int }
pub struct DateTime<Tz> { pub ghost t: int, pub tz: Tz }
impl From<SystemTime> for DateTime<Local> {
    #[verifier::external_body]
    fn from(s: SystemTime) -> (r: DateTime<Local>) ensures r.t == s.t { unimplemented!() }
}
impl PartialEq for DateTime<Local> {
    #[verifier::external_body]
    fn eq(&self, other: &Self) -> bool { unimplemented!() }
}
impl PartialOrd for DateTime<Local> {
    #[verifier::external_body]
    fn partial_cmp(&self, other: &Self) -> Option<Ordering> { unimplemented!() }
}
impl vstd::std_specs::cmp::PartialEqSpecImpl for DateTime<Local> {
    open spec fn obeys_eq_spec() -> bool { true }
    open spec fn eq_spec(&self, other: &Self) -> bool { self.t == other.t }
}
impl vstd::std_specs::cmp::PartialOrdSpecImpl for DateTime<Local> {
    open spec fn obeys_partial_cmp_spec() -> bool { true }
    open spec fn partial_cmp_spec(&self, other: &Self) -> Option<Ordering> {
        if self.t < other.t { Some(Ordering::Less) } else if self.t == other.t { Some(Ordering::Equal) } else { Some(Ordering::Greater) }
    }
}
#[verifier::external_body] pub struct IoError { _p: () }
// stand-in for file::FileMetadata: the modification time the file has NOW (None: it cannot be read)
pub struct FileMetadata { pub ghost mtime: Option<int> }
impl FileMetadata {
    #[verifier::external_body]
    pub fn modified(&self) -> (r: Result<SystemTime, IoError>)
        ensures self.mtime is Some <==> r is Ok, r is Ok ==> r->Ok_0.t == self.mtime->Some_0
    { unimplemented!() }
}

'''


def build():
    ub = UnitBuild(NAME)
    src = Source("fclones/src/dedupe.rs")
    fn = src.item("fn was_modified(")
    ub.spec(PRELUDE)
    head = src.text[fn.start:fn.end]
    m = re.search(r"for\s+PathAndMetadata\s*\{[^}]*\bmetadata:\s*(\w+)[^}]*\}\s*in\s+files\.iter\(\)", head)
    if not m:
        raise LostAnchor("the loop `for PathAndMetadata { .., metadata: m, .. } in files.iter()` of was_modified")
    meta = m.group(1)
    body = src.block_contents(src.block_of(fn, "in files.iter()"))
    ub.spec('''// ---- the whole body of the loop of was_modified (`result` is the function's answer so far, `after` the staleness
// limit converted to local time): logging statements dropped
fn was_modified_step(%s: &FileMetadata, after: DateTime<Local>, result_so_far: bool) -> (r: bool)
    ensures
        result_so_far ==> r, // @ob C04.was_modified.a_modified_file_is_never_forgotten
        %s.mtime is Some && %s.mtime->Some_0 > after.t ==> r, // @ob C04.was_modified.a_file_newer_than_the_limit_marks_the_group
        %s.mtime is None ==> r, // @ob C04.was_modified.an_unreadable_modification_time_marks_the_group
        r ==> result_so_far || %s.mtime is None || %s.mtime->Some_0 > after.t, // @ob C04.was_modified.nothing_else_marks_the_group
{
    let mut result = result_so_far;
''' % ((meta,) * 6))
    ub.piece(Piece(body, drop_calls=("log.warn(",)))
    ub.spec("\n    result\n}\n\n} // verus!\nfn main() {}\n")
    ub.functions = ["dedupe::was_modified [slice: whole body of the loop over the files]"]
    ub.assumptions = [
        "chrono::DateTime / std::time::SystemTime are stand-ins carrying a ghost point in time; `into()` keeps it, `>` compares it (chrono's conversions and time zones are NOT covered)",
        "FileMetadata::modified returns the file's current modification time or an error",
        "the `log.warn(format!(..));` statements are dropped (format! is outside Verus)",
        "the loop itself (every file of the group passes through the body), `let mut result = false`, the conversion of the limit and the returned value are NOT covered",
    ]
    return ub
