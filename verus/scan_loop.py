"""C01.scan / C15.scan: Verus on the read loop of hasher::scan (statement slice), over a ghost stream whose read() may
return any prefix length, end of file or an error at any call."""
from vf.verus_run import Source, Piece, UnitBuild

NAME = "scan_loop"

PRELUDE = r'''// Verus input of unit scan_loop. Hand-written: the ghost stream, std specs, the wrapper signature and its contract.
use vstd::prelude::*;
use std::cmp::{max, min};
use std::io;

verus! {

pub uninterp spec fn max_spec<T>(a: T, b: T) -> T;
pub uninterp spec fn min_spec<T>(a: T, b: T) -> T;
pub broadcast axiom fn min_u64(a: u64, b: u64)
    ensures #[trigger] min_spec::<u64>(a, b) == (if a <= b { a } else { b });
pub assume_specification<T: std::cmp::Ord> [std::cmp::min] (a: T, b: T) -> (r: T)
    ensures r == min_spec(a, b);

#[verifier::external_type_specification]
#[verifier::external_body]
pub struct ExIoError(std::io::Error);

// io::ErrorKind and io::Error::kind are given empty specifications (any kind) so that error-classifying rewrites of the loop
// stay within Verus' reach instead of ending as a front-end error
#[verifier::external_type_specification]
pub struct ExErrorKind(std::io::ErrorKind);
pub uninterp spec fn is_interrupted(e: &std::io::Error) -> bool; // EINTR: the only error after which reading may go on
pub assume_specification [std::io::Error::kind] (e: &std::io::Error) -> (k: std::io::ErrorKind)
    ensures (k == std::io::ErrorKind::Interrupted) == is_interrupted(e);
pub assume_specification [<std::io::ErrorKind as PartialEq>::eq] (a: &std::io::ErrorKind, b: &std::io::ErrorKind) -> (r: bool)
    ensures r == (*a == *b);

// ASSUMED: `impl From<FileLen> for u64` (file.rs) returns the wrapped value
pub struct FileLen(pub u64);
impl FileLen {
    #[verifier::external_body]
    pub fn into(self) -> (r: u64)
        ensures r == self.0
    { self.0 }
}

// Ghost stream (assumed contract of `Read::read`): each call fills a prefix of the buffer with the next bytes of the
// stream (any length, 0 = end of file) or fails; `delivered` is everything handed out so far.
pub struct GhostStream { pub ghost delivered: Seq<u8>, pub ghost failed: bool, pub ghost erred: bool, pub ghost eof: bool }

impl GhostStream {
    #[verifier::external_body]
    pub fn read(&mut self, buf: &mut [u8]) -> (r: Result<usize, std::io::Error>)
        requires !old(self).failed,
        ensures
            match r {
                Ok(n) => n <= old(buf)@.len() && final(buf)@.len() == old(buf)@.len()
                    && final(self).delivered == old(self).delivered + final(buf)@.subrange(0, n as int)
                    && !final(self).failed && final(self).erred == old(self).erred && final(self).eof == (n == 0 || old(self).eof),
                Err(e) => final(self).failed == !is_interrupted(&e) && final(self).erred && final(self).delivered == old(self).delivered && final(self).eof == old(self).eof,
            }
    { unimplemented!() }
}

// Ghost consumer: stands for the `FnMut(&[u8])` parameter of scan (the call `(consumer)(bytes)` of the source is renamed
// to `consumer.call(bytes)`); `fed` is everything it has been handed so far, in order.
pub struct GhostConsumer { pub ghost fed: Seq<u8> }
impl GhostConsumer {
    #[verifier::external_body]
    pub fn call(&mut self, b: &[u8]) ensures final(self).fed == old(self).fed + b@ { unimplemented!() }
}

// statement slice of hasher::scan, from `let mut read: u64 = 0;` to `Ok(read)`; `buf` is the thread-local buffer
// (a `RefMut<Vec<u8>>` in the source, a `&mut Vec<u8>` here), `consumer` feeds the hasher.
#[verifier::exec_allows_no_decreases_clause] // termination is not part of C01 / C15 (and a retry on EINTR has no variant)
fn scan_loop(stream: &mut GhostStream, len: FileLen, buf: &mut Vec<u8>, CONSUMER: &mut GhostConsumer) -> (r: Result<u64, std::io::Error>)
    requires
        !old(stream).failed, !old(stream).erred, !old(stream).eof, old(stream).delivered.len() == 0,
        old(CONSUMER).fed.len() == 0,
    ensures
        r is Ok ==> final(CONSUMER).fed == final(stream).delivered, // @ob C01.scan.the_consumer_receives_exactly_the_bytes_read_in_order
        final(stream).failed ==> r is Err, // @ob C15.scan.read_error_is_propagated_never_a_partial_result
        r is Err ==> final(stream).erred, // @ob C15.scan.fails_only_when_a_read_failed
        r is Ok ==> r->Ok_0 == final(stream).delivered.len(), // @ob C01.scan.count_is_the_number_of_bytes_consumed
        r is Ok ==> r->Ok_0 <= len.0, // @ob C01.scan.never_reads_past_the_chunk_length
        r is Ok ==> (r->Ok_0 == len.0 || final(stream).eof), // @ob C01.scan.stops_only_at_chunk_length_or_end_of_file
{
    broadcast use min_u64;
'''


def build():
    import re
    from vf.verus_run import LostAnchor, Region
    ub = UnitBuild(NAME)
    h = Source("fclones/src/hasher.rs")
    fn = h.item("fn scan<F: FnMut(&[u8])>(")
    # structural anchors: the slice runs from the declaration of the byte counter (`let mut <c>: u64 = 0;`) to the final
    # `Ok(<c>)`; the names of the counter, of the slice of the buffer and of its length are read from the code
    m0 = re.search(r"^[ \t]*let mut (\w+): u64 = 0;", fn.text, re.M)
    if not m0:
        raise LostAnchor("no `let mut <counter>: u64 = 0;` in hasher::scan")
    cnt = m0.group(1)
    m1 = re.search(r"^[ \t]*Ok\(%s\)[ \t]*$" % cnt, fn.text, re.M)
    if not m1:
        raise LostAnchor("no final `Ok(%s)` in hasher::scan" % cnt)
    # the consumer parameter (`mut <name>: F`) and its call `(<name>)(ARG)` / `<name>(ARG)`: renamed to `<name>.call(ARG)`
    mc = re.search(r"(?:mut\s+)?(\w+)\s*:\s*F\s*,", fn.text[:m0.start()])
    if not mc:
        raise LostAnchor("no consumer parameter `<name>: F` in the signature of hasher::scan")
    cons = mc.group(1)
    slice_text = fn.text[m0.start():m1.end()]
    calls = re.findall(r"\(\s*%s\s*\)\s*\(|(?<![\w.])%s\s*\(" % (cons, cons), slice_text)
    if len(set(calls)) != 1:
        raise LostAnchor("the consumer of hasher::scan is not called in one recognisable form inside the read loop")
    ub.spec(PRELUDE.replace("CONSUMER", cons))
    p = ub.piece(Piece(Region(h, fn.start + m0.start(), fn.start + m1.end()), renames=((calls[0], cons + ".call("),)))
    loop_head = "while %s < len" % cnt
    if p.has(loop_head):
        p.after(loop_head, "\n            invariant_except_break !stream.eof, !stream.failed,\n"
                "            invariant %s == stream.delivered.len(), %s <= len, len == verif_len0.0,\n"
                "                %s.fed == stream.delivered, // @ob C01.scan.the_consumer_receives_exactly_the_bytes_read_in_order\n"
                "            ensures %s == stream.delivered.len(), %s <= len, len == verif_len0.0, (%s == len || stream.eof),\n"
                "                %s.fed == stream.delivered,\n"
                "                !stream.failed, // @ob C15.scan.read_error_is_propagated_never_a_partial_result\n"
                "       " % (cnt, cnt, cons, cnt, cnt, cnt, cons))
        p.after(loop_head + " {", "\n            broadcast use min_u64;")
    p.before("let len = len.into();", "        let ghost verif_len0 = len;")
    m2 = re.search(r"let (\w+) = &mut (\w+)\[\.\.(\w+)\];", p.base)
    if m2:
        p.after(m2.group(0), "\n            assume(%s@.len() == %s); // ASSUMED std fact: the mutable slice `&mut v[..n]` has length n"
                % (m2.group(1), m2.group(3)))
    ub.spec("\n}\n\n} // verus!\nfn main() {}\n")
    ub.functions = ["hasher::scan [slice: the read loop]"]
    ub.assumptions = [
        "Read::read is the ghost stream's read: fills a prefix of the buffer with the next bytes (any length; 0 = end of file) or fails",
        "the buffer is not empty (FileHasher.buf_len = 65536 and scan resizes it to at least buf_len), so a 0-byte read means end of file",
        "`(&mut v[..n]).len() == n` (assume; vstd's spec of mutable range indexing does not expose it)",
        "From<FileLen> for u64 returns the wrapped value; std::cmp::min on u64",
        "the `FnMut(&[u8])` consumer is a ghost consumer that records what it is handed (its call `(consumer)(x)` is renamed to `consumer.call(x)`); "
        "the thread-local buffer set-up before the slice (BUF.with, resize) and what stream_hash's closure does with the bytes (hasher.update) are NOT covered",
        "termination of the loop is not claimed",
    ]
    return ub
