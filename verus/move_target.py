"""C18.move_target: Verus on the real body of PartitionedFileGroup::move_target: the target is DIR joined with the
(sanitised) root component and then with the source path without its root - the structure that makes the mapping
injective - for every source path."""
from vf.verus_run import Source, Piece, UnitBuild

NAME = "move_target"

PRELUDE = r'''// Verus input of unit C18.move_target. Hand-written: the Path stand-in with uninterpreted path algebra, the contract.
use vstd::prelude::*;
use std::sync::Arc;

verus! {

// stand-in for path::Path: an opaque value with an uninterpreted algebra (join, strip_root, root); that `join` and
// `strip_root` are injective in the way file-system paths are is an assumption about path.rs (its own unit tests)
#[verifier::external_body] pub struct Path { _p: () }
pub struct LossyStr { _p: () }   // what to_string_lossy() returns (a String in the source)

pub uninterp spec fn spec_root(p: &Path) -> Option<Path>;
pub uninterp spec fn spec_strip_root(p: &Path) -> Path;
pub uninterp spec fn spec_join(dir: Path, rel: Path) -> Path;
// path.rs: strip_root of a path without a root is the path itself
pub broadcast axiom fn strip_root_of_relative(p: &Path)
    requires spec_root(p) is None,
    ensures #[trigger] spec_strip_root(p) == *p;
pub uninterp spec fn spec_from<S>(s: S) -> Path;

impl Path {
    #[verifier::external_body]
    pub fn root(&self) -> (r: Option<&Path>)
        ensures r is Some == spec_root(self) is Some, r is Some ==> *r->Some_0 == spec_root(self)->Some_0
    { unimplemented!() }
    #[verifier::external_body]
    pub fn strip_root(&self) -> (r: Path) ensures r == spec_strip_root(self) { unimplemented!() }
    #[verifier::external_body]
    pub fn to_string_lossy(&self) -> LossyStr { unimplemented!() }
    #[verifier::external_body]
    pub fn clone(&self) -> (r: Path) ensures r == *self { unimplemented!() }
    #[verifier::external_body]
    pub fn join(self: &Arc<Path>, path: Path) -> (r: Path) ensures r == spec_join(**self, path) { unimplemented!() }
    #[verifier::external_body]
    pub fn from<S>(s: S) -> (r: Path) ensures r == spec_from(s) { unimplemented!() }
}
impl LossyStr {
    #[verifier::external_body]
    pub fn replace<P>(&self, from: P, to: &str) -> String { unimplemented!() }
}

pub struct PartitionedFileGroup { _p: () }
impl PartitionedFileGroup {
'''


def build():
    ub = UnitBuild(NAME)
    src = Source("fclones/src/dedupe.rs")
    ub.spec(PRELUDE)
    p = ub.piece(Piece(src.fn_in("impl PartitionedFileGroup {", "fn move_target(")))
    p.after("fn move_target(target_dir: &Arc<Path>, source_path: &Path) -> ", "(r: ")
    p.after("fn move_target(target_dir: &Arc<Path>, source_path: &Path) -> Path {", "\n        broadcast use strip_root_of_relative;")
    p.after("fn move_target(target_dir: &Arc<Path>, source_path: &Path) -> Path", ''')
        ensures
            spec_root(source_path) is None ==> r == spec_join(**target_dir, spec_strip_root(source_path)), // @ob C18.move_target.relative_source_goes_to_dir_joined_with_the_path
            spec_root(source_path) is Some ==> (r == spec_join(**target_dir, spec_strip_root(source_path))
                || exists|c: Path| r == spec_join(spec_join(**target_dir, c), spec_strip_root(source_path))), // @ob C18.move_target.absolute_source_goes_to_dir_optional_root_component_then_the_path_without_root
   ''')
    ub.spec("\n}\n\n} // verus!\nfn main() {}\n")
    ub.functions = ["dedupe::PartitionedFileGroup::move_target"]
    ub.assumptions = [
        "path::Path is an opaque value with an uninterpreted algebra: root / strip_root / join / From<String> (their string-level behaviour, and that join and strip_root are injective, is path.rs' business and assumed)",
        "to_string_lossy().replace([..], \"\") yields some string (the sanitised root component)",
        "what is proved is the STRUCTURE of the mapping for every source: DIR, then (for absolute paths) one component derived from the root only, then the whole path without its root",
    ]
    ub.closures_ok = 1   # closures without a specification in the slices on the tree the recipe was written for
    return ub
