"""C04: Verus on the statement of group::write_report that takes the report's timestamp. The dedupe commands treat a
file as unchanged if its modification time is not later than this timestamp, so it must not be later than the moment
the scan began reading files. write_report receives the groups the scan produced, i.e. it runs after the scan."""
import re
from vf.verus_run import Source, Piece, UnitBuild, LostAnchor

NAME = "report_timestamp"

PRELUDE = r'''// Verus input of unit report_timestamp. Hand-written: stand-ins, wrapper signature, contract.
use vstd::prelude::*;

verus! {

#[verifier::external_body] #[derive(Clone, Copy)] pub struct Timestamp { _p: () }   // chrono::DateTime<Local>

// a fact about the moment write_report runs: the scan that produced its `groups` argument is over
pub uninterp spec fn the_scan_has_finished() -> bool;
// "t was read from the clock before the scan read any file"
pub uninterp spec fn recorded_before_the_scan(t: Timestamp) -> bool;

pub struct Local;
impl Local {
    // the current time. The obligation is the PRE-CONDITION: the time that ends up in the report header may be read from
    // the clock only while the scan has not finished (a later reading is later than the first read of every file).
    #[verifier::external_body]
    pub fn now() -> (r: Timestamp)
        requires !the_scan_has_finished(), // @ob C04.report.timestamp_is_taken_before_the_scan
        ensures recorded_before_the_scan(r),
    { unimplemented!() }
}

// stand-in for `static SCAN_START: OnceLock<DateTime<Local>>`. ASSUMED contract of `get` (it rests on the statement order
// in group_files, which the recipe checks syntactically: the cell is initialised by the FIRST statement of group_files):
// after a scan the cell is set, and what it holds was read from the clock before the scan read anything.
pub struct StartCell { _p: () }
impl StartCell {
    #[verifier::external_body]
    pub fn get(&self) -> (r: Option<&Timestamp>)
        ensures the_scan_has_finished() ==> r is Some, r is Some ==> recorded_before_the_scan(*r->Some_0),
    { unimplemented!() }
}

// ---- the statement of write_report that produces the header's timestamp
#[allow(non_snake_case)]
fn header_timestamp(SCAN_START: &StartCell) -> (r: Timestamp)
    requires the_scan_has_finished(),   // write_report(config, log, groups): `groups` is the result of the scan
    ensures recorded_before_the_scan(r), // @ob C04.report.header_timestamp_is_not_later_than_the_start_of_the_scan
{
'''


def build():
    ub = UnitBuild(NAME)
    src = Source("fclones/src/group.rs")
    fn = src.item("pub fn write_report(")
    ub.spec(PRELUDE)
    st = src.top_stmt(fn, "Local::now()")
    m = re.match(r"^\s*let\s+(\w+)\s*=", st.text)
    if not m or not st.text.rstrip().endswith(";"):
        raise LostAnchor("the statement of write_report that reads the clock is not `let NAME = ..;`")
    # the same name must be what the header's timestamp is built from
    hdr = src.top_stmt(fn, "timestamp:")
    if not re.search(r"timestamp:[^,]*\b%s\b" % re.escape(m.group(1)), hdr.text):
        raise LostAnchor("the header's `timestamp:` field is not built from `%s`" % m.group(1))
    if "SCAN_START" in st.text:
        # side condition of the assumed contract of SCAN_START.get(): group_files records the time before anything else
        gf = src.item("pub fn group_files(")
        first = src.fn_body(gf).text.lstrip()
        if not re.match(r"SCAN_START\.get_or_init\(\s*Local::now\s*\)\s*;", first):
            raise LostAnchor("group_files does not begin with `SCAN_START.get_or_init(Local::now);`")
    ub.piece(Piece(st))
    ub.spec("\n    %s\n}\n\n} // verus!\nfn main() {}\n" % m.group(1))
    ub.functions = ["group::write_report [statement slice: the clock reading / recorded scan start that becomes the header timestamp]"]
    ub.assumptions = [
        "write_report is called with the groups the scan produced, hence after the scan (pre-condition of the wrapper; main::run_group calls group_files, then write_report)",
        "SCAN_START.get(): after a scan the cell is set and holds a clock reading taken before the scan read anything - ASSUMED; its side condition (group_files begins with `SCAN_START.get_or_init(Local::now);`) and that the header's `timestamp:` field is built from the extracted variable are checked syntactically by the recipe",
        "chrono's DateTime is an opaque Copy value; OnceLock is a stand-in",
    ]
    return ub
