// Verus prelude of unit C02.partition_tail (hand-written specification text; everything here is an ASSUMPTION
// about the standard library, listed in the evidence): std::cmp::{max,min} on usize, Vec::drain(range), Vec::extend.
#![feature(allocator_api)]
use vstd::prelude::*;
use std::cmp::{max, min};
use std::ops::Range;

verus! {

pub uninterp spec fn max_spec<T>(a: T, b: T) -> T;
pub uninterp spec fn min_spec<T>(a: T, b: T) -> T;
pub broadcast axiom fn max_usize(a: usize, b: usize)
    ensures #[trigger] max_spec::<usize>(a, b) == (if a >= b { a } else { b });
pub broadcast axiom fn min_usize(a: usize, b: usize)
    ensures #[trigger] min_spec::<usize>(a, b) == (if a <= b { a } else { b });

pub assume_specification<T: std::cmp::Ord> [std::cmp::max] (a: T, b: T) -> (r: T)
    ensures r == max_spec(a, b);
pub assume_specification<T: std::cmp::Ord> [std::cmp::min] (a: T, b: T) -> (r: T)
    ensures r == min_spec(a, b);

#[verifier::external_type_specification]
#[verifier::external_body]
#[verifier::reject_recursive_types(T)]
#[verifier::reject_recursive_types(A)]
pub struct ExDrain<'a, T: 'a, A: std::alloc::Allocator>(std::vec::Drain<'a, T, A>);

pub uninterp spec fn drain_view<'a, T, A: std::alloc::Allocator>(d: std::vec::Drain<'a, T, A>) -> Seq<T>;
pub uninterp spec fn iter_view<T, I>(i: I) -> Seq<T>;
pub uninterp spec fn rstart<R>(r: R) -> int;
pub uninterp spec fn rend<R>(r: R) -> int;
// (two single-trigger axioms: one axiom with both terms as a multi-pattern made the proof depend on solver luck)
pub broadcast axiom fn range_start(r: Range<usize>)
    ensures #[trigger] rstart::<Range<usize>>(r) == r.start as int;
pub broadcast axiom fn range_end(r: Range<usize>)
    ensures #[trigger] rend::<Range<usize>>(r) == r.end as int;
pub broadcast axiom fn drain_is_iter<'a, T, A: std::alloc::Allocator>(d: std::vec::Drain<'a, T, A>)
    ensures #[trigger] iter_view::<T, std::vec::Drain<'a, T, A>>(d) == drain_view(d);

pub assume_specification<'a, T, A: std::alloc::Allocator, R: std::ops::RangeBounds<usize>> [std::vec::Vec::<T, A>::drain] (v: &'a mut Vec<T, A>, range: R) -> (d: std::vec::Drain<'a, T, A>)
    requires 0 <= rstart(range) <= rend(range) <= old(v)@.len(),
    ensures
        drain_view(d) == old(v)@.subrange(rstart(range), rend(range)),
        final(v)@ == old(v)@.subrange(0, rstart(range)) + old(v)@.subrange(rend(range), old(v)@.len() as int);

pub assume_specification<T, A: std::alloc::Allocator, I: IntoIterator<Item = T>> [<std::vec::Vec<T, A> as std::iter::Extend<T>>::extend] (v: &mut Vec<T, A>, i: I)
    ensures final(v)@ == old(v)@ + iter_view::<T, I>(i);

// stand-in for the one field of crate::config::DedupeConfig the slice reads
pub struct DedupeConfig { pub rf_over: Option<usize> }

// C02 / C08: the replica arithmetic at the end of `dedupe::partition`, as a function of the variables it reads.
// Post-conditions are taken from the property statement: max(1, n) sub-groups (all if there are fewer) are
// retained; nothing is lost or reordered; what was already retained stays retained and the sub-groups promoted
// are the FIRST droppable ones in priority order (so the ones ranked last are dropped).
fn partition_tail<G>(config: &DedupeConfig, to_retain: Vec<G>, to_drop: Vec<G>) -> (r: (Vec<G>, Vec<G>))
    ensures
        ({ let n = if config.rf_over.is_some() && config.rf_over.unwrap() > 1 { config.rf_over.unwrap() as int } else { 1int };
           let total = (to_retain@.len() + to_drop@.len()) as int;
           r.0@.len() >= (if n <= total { n } else { total }) }), // @ob C02.partition_tail.max_1_n_replicas_retained
        r.0@ + r.1@ == to_retain@ + to_drop@, // @ob C02.partition_tail.nothing_lost_order_kept
        to_retain@.is_prefix_of(r.0@), // @ob C02.partition_tail.retained_stay_retained
        ({ let n = if config.rf_over.is_some() && config.rf_over.unwrap() > 1 { config.rf_over.unwrap() as int } else { 1int };
           to_retain@.len() >= n ==> r.1@ == to_drop@ }), // @ob C08.partition_tail.no_promotion_when_enough_retained
        ({ let n = if config.rf_over.is_some() && config.rf_over.unwrap() > 1 { config.rf_over.unwrap() as int } else { 1int };
           r.0@.len() <= (if to_retain@.len() >= n { to_retain@.len() as int } else { n }) }), // @ob C08.partition_tail.exactly_n_survive_when_droppable
{
    broadcast use max_usize, min_usize, range_start, range_end, drain_is_iter;
    let mut to_retain = to_retain;
    let mut to_drop = to_drop;
