"""C06.matches, C14.missing_count, C14.redundant_fast_path: Verus on FileGroup::{matches, matches_strictly,
missing_count, file_count} and the fast path of redundant_count, extracted from group.rs."""
from vf.verus_run import Source, Piece, UnitBuild

NAME = "filegroup_counts"

PRELUDE = r'''// Verus input of unit filegroup_counts. Hand-written: this prelude, the `impl` headers, the contract clauses.
use vstd::prelude::*;
use std::cmp::max;

verus! {

// opaque stand-ins for types the kernels do not look into (their definitions are not extracted)
#[verifier::external_body] pub struct Path { _p: () }
#[verifier::external_body] pub struct FileId { _p: () }
#[verifier::external_body] pub struct FileHash { _p: () }
pub struct FileLen(pub u64);

pub uninterp spec fn max_spec<T>(a: T, b: T) -> T;
pub broadcast axiom fn max_usize(a: usize, b: usize)
    ensures #[trigger] max_spec::<usize>(a, b) == (if a >= b { a } else { b });
pub assume_specification<T: std::cmp::Ord> [std::cmp::max] (a: T, b: T) -> (r: T)
    ensures r == max_spec(a, b);

// ASSUMED (A6): the number of sub-groups FileSubGroup::group builds (roots first, then file ids; IndexMap based) is an
// uninterpreted function of (files, roots, group_by_id). What is proved below is that subgroup_count is exactly that number
// for the group's files and the filter's roots / link handling, and how the reporting decisions depend on it.
pub uninterp spec fn spec_group_len<I>(files: I, roots: Seq<Path>, group_by_id: bool) -> nat;
// the one documented special case (so that a correct fast path is not an alarm): without isolated roots and with
// --match-links every path is a replica of its own
pub uninterp spec fn spec_iter_count<I>(files: I) -> nat;
pub broadcast axiom fn iter_count_of_vec_ref<F>(v: &Vec<F>)
    ensures #[trigger] spec_iter_count::<&Vec<F>>(v) == v@.len();
pub broadcast axiom fn group_len_without_roots_and_ids<I>(files: I, roots: Seq<Path>, group_by_id: bool)
    requires roots.len() == 0 && !group_by_id,
    ensures #[trigger] spec_group_len::<I>(files, roots, group_by_id) == spec_iter_count::<I>(files);
// "sgs is what FileSubGroup::group returns for (files, roots, group_by_id)" - uninterpreted as well
pub uninterp spec fn spec_is_grouping_of<G, I>(sgs: Seq<G>, files: I, roots: Seq<Path>, group_by_id: bool) -> bool;
pub open spec fn spec_subgroup_count<F>(g: &FileGroup<F>, filter: &FileGroupFilter) -> nat {
    spec_group_len(&g.files, filter.root_paths@, filter.group_by_id)
}
'''

GROUP_STUB = r'''

impl<F> FileSubGroup<F> {
    // assumed contract of FileSubGroup::group (signature: `files: impl IntoIterator<Item = F>` written as a type parameter)
    #[verifier::external_body]
    pub fn group<I: IntoIterator<Item = F>>(files: I, roots: &[Path], group_by_id: bool) -> (r: Vec<FileSubGroup<F>>)
        ensures r@.len() == spec_group_len(files, roots@, group_by_id),
                spec_is_grouping_of(r@, files, roots@, group_by_id),
    { unimplemented!() }
}

impl<F> FileGroup<F> {
'''


FAST_HEAD = '''
    // statement slice of redundant_count (arm Overreplicated(rf)): the fast path. Whether it is taken is the code's business
    // (the slow path must give the same number); IF it is taken, its value must be files - max(rf, 1), floored at 0.
    fn redundant_fast_path(&self, filter: &FileGroupFilter, rf: usize) -> (r: (bool, usize))
        requires filter.root_paths@.len() == 0,
        ensures r.0 ==> r.1 as int == (if self.files@.len() as int >= (if rf >= 1 { rf as int } else { 1int })
                                { self.files@.len() as int - (if rf >= 1 { rf as int } else { 1int }) } else { 0int }), // @ob C14.redundant_fast_path.files_minus_max_rf_1_floored
    {
        broadcast use max_usize;
        let verif_fast_path_value: usize = {
'''

FAST_TAIL = '''
                } else {
                    return (false, 0);
                }
        };
        (true, verif_fast_path_value)
    }
'''


def build():
    ub = UnitBuild(NAME)
    src = Source("fclones/src/group.rs")
    ub.spec(PRELUDE)
    drop = dict(drop_attrs=("derive", "allow"))
    ub.piece(Piece(src.item("pub struct FileGroup<F> {"), **drop))
    ub.spec("\n")
    ub.piece(Piece(src.item("pub enum Replication {"), **drop))
    ub.spec("\n")
    ub.piece(Piece(src.item("pub struct FileGroupFilter {"), **drop))
    ub.spec("\n\n")
    ub.piece(Piece(src.item("pub struct FileSubGroup<F> {"), **drop))
    ub.spec(GROUP_STUB)
    impl0 = "impl<F: AsRef<Path> + AsRef<FileId>> FileGroup<F> {"
    p = ub.piece(Piece(src.fn_in(impl0, "fn subgroup_count(&self, filter: &FileGroupFilter) -> usize {")))
    p.after("fn subgroup_count(&self, filter: &FileGroupFilter) -> ", "(r: ")
    p.after("fn subgroup_count(&self, filter: &FileGroupFilter) -> usize", ''')
        ensures r as nat == spec_subgroup_count(self, filter) // @ob C06.subgroup_count.counts_the_sub_groups_of_all_files_under_the_filters_roots_and_link_handling
   ''')
    p.after("fn subgroup_count(&self, filter: &FileGroupFilter) -> usize {", "\n        broadcast use iter_count_of_vec_ref, group_len_without_roots_and_ids;")
    ub.spec("\n\n")
    p = ub.piece(Piece(src.fn_in("impl<F> FileGroup<F> {", "pub fn file_count(&self) -> usize {")))
    p.after("pub fn file_count(&self) -> ", "(r: ")
    p.after("pub fn file_count(&self) -> usize", ")\n        ensures r == self.files@.len(),\n   ")
    ub.spec("\n")
    impl = "impl<F: AsRef<Path> + AsRef<FileId>> FileGroup<F> {"
    p = ub.piece(Piece(src.fn_in(impl, "pub fn matches(&self, filter: &FileGroupFilter) -> bool {")))
    p.after("pub fn matches(&self, filter: &FileGroupFilter) -> ", "(r: ")
    p.after("pub fn matches(&self, filter: &FileGroupFilter) -> bool", ''')
        ensures r == match filter.replication {
            Replication::Overreplicated(rf) => spec_subgroup_count(self, filter) > rf, // @ob C06.matches.over_iff_count_gt_rf
            Replication::Underreplicated(_) => true, // @ob C06.matches.under_is_never_filtered_early
        }
   ''')
    ub.spec("\n")
    p = ub.piece(Piece(src.fn_in(impl, "pub fn matches_strictly(&self, filter: &FileGroupFilter) -> bool {")))
    p.after("pub fn matches_strictly(&self, filter: &FileGroupFilter) -> ", "(r: ")
    p.after("pub fn matches_strictly(&self, filter: &FileGroupFilter) -> bool", ''')
        ensures r == match filter.replication {
            Replication::Overreplicated(rf) => spec_subgroup_count(self, filter) > rf, // @ob C06.matches_strictly.reported_iff_count_gt_rf_over
            Replication::Underreplicated(rf) => spec_subgroup_count(self, filter) < rf, // @ob C06.matches_strictly.reported_iff_count_lt_rf_under
        }
   ''')
    ub.spec("\n")
    p = ub.piece(Piece(src.fn_in(impl, "pub fn missing_count(&self, filter: &FileGroupFilter) -> usize {")))
    p.after("pub fn missing_count(&self, filter: &FileGroupFilter) -> ", "(r: ")
    p.after("pub fn missing_count(&self, filter: &FileGroupFilter) -> usize", ''')
        ensures r as int == match filter.replication {
            Replication::Overreplicated(_) => 0int, // @ob C14.missing_count.zero_for_duplicate_search
            Replication::Underreplicated(rf) => if rf as int >= spec_subgroup_count(self, filter) as int { rf as int - spec_subgroup_count(self, filter) as int } else { 0int }, // @ob C14.missing_count.rf_minus_count_floored
        }
   ''')
    # fast path of redundant_count (no isolated roots): statement slice (optional: left out if its anchors are lost)
    def fast_path():
        fn = src.fn_in(impl, "pub fn redundant_count(&self, filter: &FileGroupFilter) -> usize {")
        sl = src.stmts(fn, "let rf = max(rf, 1);", "self.file_count().saturating_sub(rf)")
        ub.spec(FAST_HEAD)
        ub.piece(Piece(sl))
        ub.spec(FAST_TAIL)
    ub.optional("redundant_count fast path", fast_path, prefixes=["C14.redundant_fast_path."])

    # --isolate branch of redundant_count: which sub-groups are counted (expression slice: initialiser of `let sub_groups`)
    def isolated_branch():
        fn = src.fn_in(impl, "pub fn redundant_count(&self, filter: &FileGroupFilter) -> usize {")
        e = src.let_init(fn, "let sub_groups =")
        ub.spec('''
    fn redundant_isolated_sub_groups(&self, filter: &FileGroupFilter) -> (r: Vec<FileSubGroup<&F>>)
        ensures spec_is_grouping_of(r@, &self.files, filter.root_paths@, filter.group_by_id), // @ob C14.redundant_isolated.counts_over_the_sub_groups_of_all_files_under_the_filters_roots_and_link_handling
    {
        ''')
        ub.piece(Piece(e))
        ub.spec("\n    }\n")
    ub.optional("redundant_count --isolate branch: the sub-groups counted", isolated_branch, prefixes=["C14.redundant_isolated."])
    ub.spec('''
}

// stand-in for group::GroupCtx: the one field the stage filters read
pub struct GroupCtx { pub group_filter: FileGroupFilter }

pub open spec fn filter_holds<F>(g: &FileGroup<F>, filter: &FileGroupFilter) -> bool {
    match filter.replication {
        Replication::Overreplicated(rf) => spec_subgroup_count(g, filter) > rf,
        Replication::Underreplicated(rf) => spec_subgroup_count(g, filter) < rf,
    }
}

// ---- expression slices: the post-filter closure (3rd argument of `rehash(..)`) of every stage function.
// A stage whose output is the report (contents stage; the single stage of the --transform path) must report a class
// iff the replication filter holds; an intermediate stage must never drop a class of an under-replication search.
''')
    for fn_name, final in [("group_by_contents", True), ("group_transformed", True), ("group_by_prefix", False), ("group_by_suffix", False)]:
        fn = src.item("fn %s(" % fn_name)
        if final:
            head = ("fn %s_post_filter<F>(g: &FileGroup<F>, ctx: &GroupCtx) -> (r: bool)\n"
                    "    ensures r == filter_holds(g, &ctx.group_filter), // @ob C06.final_filter.%s_reports_iff_filter_holds\n{\n    " % (fn_name, fn_name))
        else:
            head = ("fn %s_post_filter<F>(g: &FileGroup<F>, ctx: &GroupCtx) -> (r: bool)\n"
                    "    ensures filter_holds(g, &ctx.group_filter) ==> r, // @ob C06.stage_filter.%s_never_drops_a_reportable_class\n"
                    "            ctx.group_filter.replication is Underreplicated ==> r, // @ob C06.stage_filter.%s_keeps_everything_for_under_replication_search\n{\n    " % (fn_name, fn_name, fn_name))
        def one(fn=fn, head=head):
            region = src.call_arg(fn, "rehash", 2)
            ub.spec(head)
            ub.piece(Piece(region))
            ub.spec("\n}\n\n")
        ub.optional("post-filter of %s" % fn_name, one, prefixes=["C06.final_filter.", "C06.stage_filter."])
    ub.spec('''
} // verus!
fn main() {}
''')
    ub.functions = ["group::FileGroup::subgroup_count", "group::group_by_contents [slice: post-filter]", "group::group_transformed [slice: post-filter]",
                    "group::group_by_prefix [slice: post-filter]", "group::group_by_suffix [slice: post-filter]",
                    "group::FileGroup::matches", "group::FileGroup::matches_strictly", "group::FileGroup::missing_count",
                    "group::FileGroup::file_count", "group::FileGroup::redundant_count [slice: fast path]"]
    ub.assumptions = [
        "FileSubGroup::group (IndexMap based) is an external function whose result length is an uninterpreted function of (files, roots, group_by_id) (A6); subgroup_count's own body is verified against it",
        "impl header trait bounds `F: AsRef<Path> + AsRef<FileId>` are not extracted (the three kernels do not use them)",
        "Path / FileId / FileHash are opaque; FileLen is re-declared as a tuple struct over u64",
        "std::cmp::max on usize is the mathematical max",
        "the isolated-roots branch of redundant_count (iterator adapters + FileSubGroup::group) is NOT covered",
    ]
    return ub
