"""C01.stage_chunks: Verus on the chunk computations of the three hashing stages of group.rs, over
FileLen/FilePos/FileChunk (file.rs) and DiskDevice::{min,max}_prefix_len / suffix_len / suffix_threshold (device.rs)."""
from vf.verus_run import Source, Piece, UnitBuild

NAME = "stage_chunks"

PRELUDE = r'''// Verus input of unit C01.stage_chunks. Hand-written: stand-in types, contract clauses, wrapper signatures.
use vstd::prelude::*;
use std::ops::{Add, Sub};
use std::cmp::{max, min, Ordering};

verus! {

// stand-ins for types the slices do not look into
#[verifier::external_body] pub struct Path { _p: () }
#[verifier::external_body] pub struct FileId { _p: () }
pub enum DiskKind { HDD, SSD, Unknown(isize) }          // stand-in for sysinfo::DiskKind (same variants)
pub struct DiskDevice { pub disk_kind: DiskKind }        // the only field the four helpers read
pub struct DiskDevices { pub devices: Vec<DiskDevice> }  // ctx.devices[i] indexes this vector (device.rs Index impl)
pub struct GroupCtx { pub devices: Vec<DiskDevice> }     // stand-in: `ctx.devices[i]`
pub struct FileGroupHdr { pub file_len: FileLen }        // the one field of FileGroup the pre-filters read

// the hasher as the stage closures see it: hashing a chunk yields Some(hash of exactly that chunk) or None when the file
// could not be read (ASSUMED contract of FileHasher::hash_file_or_log_err: Kani units c15_hash_file_* + Verus unit scan_loop)
#[verifier::external_body] pub struct FileHash { _p: () }
impl Clone for FileHash {
    #[verifier::external_body]
    fn clone(&self) -> (r: FileHash) ensures r == *self { unimplemented!() }
}
// std: Option::map_or (not specified by vstd)
pub assume_specification<T, U, F: FnOnce(T) -> U> [Option::<T>::map_or] (o: Option<T>, default: U, f: F) -> (r: U)
    requires o is Some ==> f.requires((o->Some_0,)),
    ensures o is None ==> r == default, o is Some ==> f.ensures((o->Some_0,), r);
pub uninterp spec fn chunk_hash(pos: u64, len: u64) -> FileHash;
pub uninterp spec fn readable() -> bool;
pub uninterp spec fn xor_spec(a: FileHash, b: FileHash) -> FileHash;
pub struct Hasher { _p: () }
impl Hasher {
    #[verifier::external_body]
    pub fn hash_file_or_log_err<F: Fn(usize)>(&self, chunk: &FileChunk<'_>, progress: F) -> (r: Option<FileHash>)
        ensures
            r is Some <==> readable(),
            r is Some ==> r->Some_0 == chunk_hash(chunk.pos.0, chunk.len.0),
    { unimplemented!() }
}
pub struct Progress { _p: () }
impl Progress {
    #[verifier::external_body]
    pub fn inc(&self, n: u64) { unimplemented!() }
}
pub struct Ctx { pub devices: Vec<DiskDevice>, pub hasher: Hasher }
impl std::ops::BitXor for FileHash {
    type Output = FileHash;
    #[verifier::external_body]
    fn bitxor(self, rhs: FileHash) -> (r: FileHash) { unimplemented!() }
}
impl vstd::std_specs::ops::BitXorSpecImpl<FileHash> for FileHash {
    open spec fn obeys_bitxor_spec() -> bool { true }
    open spec fn bitxor_req(self, rhs: FileHash) -> bool { true }
    open spec fn bitxor_spec(self, rhs: FileHash) -> FileHash { xor_spec(self, rhs) }
}

// ASSUMED: std::cmp::{min,max} on FileLen follow the derived Ord of the one-field tuple struct (= order of the u64)
pub uninterp spec fn min_spec<T>(a: T, b: T) -> T;
pub uninterp spec fn max_spec<T>(a: T, b: T) -> T;
pub broadcast axiom fn min_filelen(a: FileLen, b: FileLen)
    ensures #[trigger] min_spec::<FileLen>(a, b) == (if a.0 <= b.0 { a } else { b });
pub broadcast axiom fn max_filelen(a: FileLen, b: FileLen)
    ensures #[trigger] max_spec::<FileLen>(a, b) == (if a.0 >= b.0 { a } else { b });
pub assume_specification<T: std::cmp::Ord> [std::cmp::min] (a: T, b: T) -> (r: T)
    ensures r == min_spec(a, b);
pub assume_specification<T: std::cmp::Ord> [std::cmp::max] (a: T, b: T) -> (r: T)
    ensures r == max_spec(a, b);

'''

SIDE = r'''
// meaning of the derived comparisons and of the hand-written operator impl (Verus leaves them uninterpreted)
impl vstd::std_specs::cmp::PartialEqSpecImpl for FileLen {
    open spec fn obeys_eq_spec() -> bool { true }
    open spec fn eq_spec(&self, other: &FileLen) -> bool { self.0 == other.0 }
}
impl vstd::std_specs::cmp::PartialOrdSpecImpl for FileLen {
    open spec fn obeys_partial_cmp_spec() -> bool { true }
    open spec fn partial_cmp_spec(&self, other: &FileLen) -> Option<Ordering> {
        if self.0 < other.0 { Some(Ordering::Less) } else if self.0 == other.0 { Some(Ordering::Equal) } else { Some(Ordering::Greater) }
    }
}
impl vstd::std_specs::ops::SubSpecImpl<FileLen> for FilePos {
    open spec fn obeys_sub_spec() -> bool { true }
    open spec fn sub_req(self, rhs: FileLen) -> bool { self.0 >= rhs.0 } // the body `FilePos(self.0 - rhs.0)` must not underflow
    open spec fn sub_spec(self, rhs: FileLen) -> FilePos { FilePos((self.0 - rhs.0) as u64) }
}
'''


def build():
    ub = UnitBuild(NAME)
    f = Source("fclones/src/file.rs")
    d = Source("fclones/src/device.rs")
    g = Source("fclones/src/group.rs")
    ub.spec(PRELUDE)
    ub.spec("#[derive(Clone, Copy, PartialEq, Eq, PartialOrd, Ord)] // derive list reduced (Hash, Debug, serde dropped)\n")
    ub.piece(Piece(f.item("pub struct FilePos(pub u64);"), drop_attrs=("derive",)))
    ub.spec("\n#[derive(Clone, Copy, PartialEq, Eq, PartialOrd, Ord)] // derive list reduced\n")
    ub.piece(Piece(f.item("pub struct FileLen(pub u64);")))
    ub.spec("\nimpl FileLen {\n")
    p = ub.piece(Piece(f.fn_in("impl FileLen {", "pub fn as_pos(self) -> FilePos {")))
    p.after("pub fn as_pos(self) -> ", "(r: ")
    p.after("pub fn as_pos(self) -> FilePos", ")\n        ensures r.0 == self.0\n   ")
    ub.spec("\n}\n\n")
    ub.piece(Piece(f.item("impl Sub<FileLen> for FilePos {")))
    ub.spec("\n\n")
    ub.piece(Piece(f.item("pub struct FileChunk<'a> {")))
    ub.spec("\n\n")
    p = ub.piece(Piece(f.item("impl FileChunk<'_> {")))
    p.after("pub fn new(path: &Path, pos: FilePos, len: FileLen) -> ", "(r: ")
    p.after("pub fn new(path: &Path, pos: FilePos, len: FileLen) -> FileChunk<'_>", ")\n        ensures r.pos == pos, r.len == len\n   ")
    ub.spec("\n\n")
    ub.piece(Piece(f.item("pub struct FileInfo {"), drop_attrs=("derive",)))
    ub.spec("\n\nimpl FileInfo {\n    pub closed spec fn dev_idx(&self) -> usize { (self.location >> 48) as usize }\n\n")
    p = ub.piece(Piece(f.fn_in("impl FileInfo {", "pub fn get_device_index(&self) -> usize {")))
    p.after("pub fn get_device_index(&self) -> ", "(r: ")
    p.after("pub fn get_device_index(&self) -> usize", ")\n        ensures r == self.dev_idx()\n   ")
    ub.spec("\n}\n")
    ub.spec(SIDE)
    ub.spec("\nimpl DiskDevice {\n")
    # ranges, not the exact tuning constants: what the property needs is only that the default suffix chunk fits into
    # every file the suffix stage admits (suffix_len <= suffix_threshold for every device kind); these helper clauses
    # carry no obligation name (a retuned constant outside the range makes the unit undecided, not a violation)
    for name, ens in [("min_prefix_len", "1 <= r.0 <= 64 * 1024"),
                      ("max_prefix_len", "1 <= r.0 <= 64 * 1024"),
                      ("suffix_len", "1 <= r.0 <= 64 * 1024"),
                      ("suffix_threshold", "r.0 >= 64 * 1024")]:
        hdr = "pub fn %s(&self) -> FileLen {" % name
        p = ub.piece(Piece(d.fn_in("impl DiskDevice {", hdr)))
        p.after("pub fn %s(&self) -> " % name, "(r: ")
        p.after("pub fn %s(&self) -> FileLen" % name, ")\n        ensures %s\n   " % ens)
        ub.spec("\n\n")
    ub.spec('''}

// C01.device_consts: for every device kind the default suffix chunk is not longer than the shortest file the suffix stage admits
fn device_consts(dd: &DiskDevice)
{
    let c = dd.suffix_len();
    let t = dd.suffix_threshold();
    assert(c.0 <= t.0); // @ob C01.device_consts.default_suffix_len_le_threshold
}

''')

    NOP = (("|_| {}", "|_verif_unused: usize| {}"),)   # Verus does not accept a wildcard closure parameter
    BR = (("|bytes_read| progress", "|bytes_read: usize| progress"),)

    # Every slice below is optional: if its anchors are lost it is left out and only its own obligations are undecided.
    # structural anchor of a stage closure: it is the 6th argument of `rehash(` in the stage function
    def s_prefix():
        fn = g.item("fn group_by_prefix(")
        body = g.block_contents(g.call_arg(fn, "rehash", 5))
        ub.spec('''// ---- whole body of the hashing closure of group_by_prefix: the new key of the file
fn prefix_closure(ctx: &Ctx, fi: &FileInfo, prefix_len: FileLen, progress: &Progress) -> (r: Option<FileHash>)
    requires fi.dev_idx() < ctx.devices.len(),
    ensures
        r is Some <==> readable(), // @ob C15.stage.prefix_unreadable_file_gets_no_key
        r is Some ==> exists|l: u64| r->Some_0 == chunk_hash(0, l) && (fi.len.0 <= prefix_len.0 ==> l >= fi.len.0), // @ob C01.stage_chunks.small_files_hashed_whole_in_prefix_stage
{
    broadcast use min_filelen, max_filelen;
''')
        ub.piece(Piece(body, renames=NOP))
        ub.spec("\n}\n\n")
    ub.optional("hashing closure of group_by_prefix", s_prefix,
                prefixes=["C15.stage.prefix", "C01.stage_chunks.small_files"])

    def s_contents_filter():
        fnc = g.item("fn group_by_contents(")
        e = g.expr(fnc, "g.file_len >= min_file_len")
        ub.spec('''// ---- expression slice: length condition of the pre-filter of group_by_contents
fn contents_prefilter_len(g: &FileGroupHdr, min_file_len: FileLen) -> (r: bool)
    ensures r == (g.file_len.0 >= min_file_len.0), // @ob C01.stage_chunks.contents_stage_takes_every_len_ge_min
{
    ''')
        ub.piece(Piece(e))
        ub.spec("\n}\n\n")
    ub.optional("pre-filter of group_by_contents", s_contents_filter, prefixes=["C01.stage_chunks.contents_stage_takes"])

    def s_contents():
        fnc = g.item("fn group_by_contents(")
        body = g.block_contents(g.call_arg(fnc, "rehash", 5))
        ub.spec('''// ---- whole body of the hashing closure of group_by_contents: the final key of the file
fn contents_closure(ctx: &Ctx, fi: &FileInfo, progress: &Progress) -> (r: Option<FileHash>)
    ensures
        r is Some <==> readable(), // @ob C15.stage.contents_unreadable_file_is_never_reported
        r is Some ==> r->Some_0 == chunk_hash(0, fi.len.0), // @ob C01.stage_chunks.contents_stage_hashes_whole_file
{
''')
        ub.piece(Piece(body, renames=BR))
        ub.spec("\n}\n\n")
    ub.optional("hashing closure of group_by_contents", s_contents,
                prefixes=["C15.stage.contents", "C01.stage_chunks.contents_stage_hashes"])

    def s_suffix_filter():
        fns = g.item("fn group_by_suffix(")
        e = g.expr(fns, "g.file_len >= suffix_threshold")
        ub.spec('''// ---- expression slice: length condition of the pre-filter of group_by_suffix
fn suffix_prefilter_len(g: &FileGroupHdr, suffix_threshold: FileLen) -> (r: bool)
    ensures r == (g.file_len.0 >= suffix_threshold.0), // @ob C01.stage_chunks.suffix_stage_admits_only_len_ge_threshold
{
    ''')
        ub.piece(Piece(e))
        ub.spec("\n}\n\n")
    ub.optional("pre-filter of group_by_suffix", s_suffix_filter, prefixes=["C01.stage_chunks.suffix_stage_admits"])

    def s_suffix():
        fns = g.item("fn group_by_suffix(")
        body = g.block_contents(g.call_arg(fns, "rehash", 5))
        ub.spec('''// ---- whole body of the hashing closure of group_by_suffix. The pre-filter (above) admits only groups with
// file_len >= suffix_threshold, and every file of a group has fi.len == g.file_len (rehash, assumed). `suffix_len` is
// whatever group_by_suffix computed: --max-suffix-size if given, else the device default. The new key combines the old
// one with the hash of a chunk that ends at the end of the file; an unreadable file gets NO key (it is dropped).
fn suffix_closure(ctx: &Ctx, fi: &FileInfo, old_hash: FileHash, suffix_len: FileLen, suffix_threshold: FileLen, progress: &Progress) -> (r: Option<FileHash>)
    requires fi.len.0 >= suffix_threshold.0,
    ensures
        r is Some <==> readable(), // @ob C15.stage.suffix_unreadable_file_gets_no_key
{
    broadcast use min_filelen, max_filelen;
''')
        ub.piece(Piece(body, renames=NOP))
        ub.spec("\n}\n\n")
    ub.optional("hashing closure of group_by_suffix", s_suffix, prefixes=["C15.stage.suffix"])

    def s_suffix_chunk():
        fns = g.item("fn group_by_suffix(")
        sl = g.block_until_stmt(g.call_arg(fns, "rehash", 5), "let chunk = FileChunk::new(")
        ub.spec('''// ---- statements of the same closure up to the construction of the chunk: where the suffix chunk lies
fn suffix_slice<'a>(fi: &'a FileInfo, suffix_len: FileLen, suffix_threshold: FileLen, progress: &Progress) -> (chunk: FileChunk<'a>)
    requires fi.len.0 >= suffix_threshold.0,
    ensures chunk.pos.0 + chunk.len.0 == fi.len.0, // @ob C01.stage_chunks.suffix_chunk_ends_at_end_of_file
{
    broadcast use min_filelen, max_filelen;
''')
        ub.piece(Piece(sl))
        ub.spec("\n    chunk\n}\n\n")
    ub.optional("chunk of group_by_suffix", s_suffix_chunk, prefixes=["C01.stage_chunks.suffix_chunk"])

    ub.spec('''
// ---- lemma over the contracts above: for every file length and every prefix length, the whole file is hashed in
// the prefix stage (len <= prefix_len) or the contents stage admits it (len >= min_file_len, and group_files passes
// min_file_len = prefix_len) and hashes it whole.
proof fn whole_file_hashed_in_some_stage(len: u64, prefix_len: u64)
    ensures len <= prefix_len || len >= prefix_len, // @ob C01.stage_chunks.lemma_every_length_reaches_a_whole_file_stage
{
}

} // verus!
fn main() {}
''')
    ub.functions = ["file::FileLen::as_pos", "file::FilePos::sub(FileLen)", "file::FileChunk::new", "file::FileInfo::get_device_index",
                    "device::DiskDevice::min_prefix_len", "device::DiskDevice::max_prefix_len", "device::DiskDevice::suffix_len",
                    "device::DiskDevice::suffix_threshold", "group::group_by_prefix [slice: chunk computation]",
                    "group::group_by_suffix [slices: pre-filter length test, chunk computation]",
                    "group::group_by_contents [slices: pre-filter length test, chunk computation]"]
    ub.assumptions = [
        "rehash applies the hashing closure only to files of groups admitted by the pre-filter, and every file of a group has fi.len == g.file_len (A10)",
        "group_files passes min_file_len = prefix_len to group_by_contents (read from the call site, not extracted)",
        "sysinfo::DiskKind is replaced by a three-variant stand-in; DiskDevice/GroupCtx by stand-ins holding the fields read",
        "derive lists of FilePos/FileLen reduced to Clone, Copy, PartialEq, Eq, PartialOrd, Ord; their meaning given by *SpecImpl blocks",
        "hasher (which bytes a chunk (pos,len) makes the hasher read) is NOT covered here",
    ]
    ub.closures_ok = 4   # closures without a specification in the slices on the tree the recipe was written for
    return ub
