"""C02.dedupe_script: Verus on the whole body of PartitionedFileGroup::dedupe_script (any number of files to drop):
one command per dropped file, each command affects exactly that dropped file, every link target is the first kept
file."""
from vf.verus_run import Source, Piece, UnitBuild

NAME = "dedupe_script"

PRELUDE = r'''// Verus input of unit C02.dedupe_script. Hand-written: opaque stand-ins, spec functions, the wrapper signature + contract.
use vstd::prelude::*;
use std::sync::Arc;
use vstd::std_specs::iter::IteratorSpec;

verus! {

#[verifier::external_body] pub struct Path { _p: () }
#[verifier::external_body] pub struct FileMetadata { _p: () }
#[verifier::external_body] pub struct DiskDevices { _p: () }

'''

SPECS = r'''
// the file a command removes / replaces / moves
pub open spec fn affected(c: FsCommand) -> PathAndMetadata {
    match c {
        FsCommand::Remove { file } => file,
        FsCommand::Move { source, .. } => source,
        FsCommand::SoftLink { link, .. } => link,
        FsCommand::HardLink { link, .. } => link,
        FsCommand::RefLink { link, .. } => link,
    }
}

pub open spec fn link_target_is(c: FsCommand, kept: PathAndMetadata) -> bool {
    match c {
        FsCommand::SoftLink { target, .. } => *target == kept,
        FsCommand::HardLink { target, .. } => *target == kept,
        FsCommand::RefLink { target, .. } => *target == kept,
        _ => true,
    }
}

pub open spec fn kind_matches(c: FsCommand, s: DedupeOp) -> bool {
    match (c, s) {
        (FsCommand::Remove { .. }, DedupeOp::Remove) => true,
        (FsCommand::Move { .. }, DedupeOp::Move(_)) => true,
        (FsCommand::SoftLink { .. }, DedupeOp::SymbolicLink) => true,
        (FsCommand::HardLink { .. }, DedupeOp::HardLink) => true,
        (FsCommand::RefLink { .. }, DedupeOp::RefLink) => true,
        _ => false,
    }
}

impl PartitionedFileGroup {
    // string / mount-table processing: out of reach, arbitrary results
    #[verifier::external_body]
    fn are_on_same_mount(devices: &DiskDevices, file1: &Path, file2: &Path) -> bool { unimplemented!() }
    #[verifier::external_body]
    fn move_target(target_dir: &Arc<Path>, source_path: &Path) -> Path { unimplemented!() }

    // body of `pub fn dedupe_script(mut self, ..)`; Verus does not support `mut self` receivers, so the receiver is the
    // parameter `this` and every `self.` of the body is renamed to `this.` (listed as an extraction transform)
    pub fn dedupe_script(this: PartitionedFileGroup, strategy: &DedupeOp, devices: &DiskDevices) -> (commands: Vec<FsCommand>)
        requires this.to_drop@.len() > 0 ==> this.to_keep@.len() > 0, // partition's guarantee (C02.partition_tail)
        ensures
            commands@.len() == this.to_drop@.len(), // @ob C02.dedupe_script.one_command_per_dropped_file
            forall|i: int| 0 <= i < commands@.len() ==> affected(#[trigger] commands@[i]) == this.to_drop@[i], // @ob C02.dedupe_script.each_command_affects_exactly_its_dropped_file
            forall|i: int| 0 <= i < commands@.len() ==> exists|k: int| 0 <= k < this.to_keep@.len()
                && link_target_is(#[trigger] commands@[i], #[trigger] this.to_keep@[k]), // @ob C02.dedupe_script.every_link_target_is_a_kept_file
            forall|i: int| 0 <= i < commands@.len() ==> kind_matches(#[trigger] commands@[i], *strategy), // @ob C02.dedupe_script.command_kind_is_the_requested_operation
    {
        let mut this = this;
        let ghost keep0 = this.to_keep@;
        let ghost drop0 = this.to_drop@;
'''


def build():
    ub = UnitBuild(NAME)
    src = Source("fclones/src/dedupe.rs")
    ub.spec(PRELUDE)
    drop = dict(drop_attrs=("derive",))
    ub.piece(Piece(src.item("pub enum DedupeOp {"), **drop))
    ub.spec("\n\n")
    ub.piece(Piece(src.item("pub struct PathAndMetadata {"), **drop))
    ub.spec("\n\n#[allow(inconsistent_fields)]\n")
    ub.piece(Piece(src.item("pub enum FsCommand {"), **drop))
    ub.spec("\n\n")
    ub.piece(Piece(src.item("pub struct PartitionedFileGroup {"), **drop))
    ub.spec(SPECS)
    fn = src.fn_in("impl PartitionedFileGroup {", "pub fn dedupe_script(")
    p = ub.piece(Piece(src.fn_body(fn), rewrite_asserts=True, renames=(("self.", "this."),)))
    p.after("assert(verif_assert_0);", " // @ob C02.dedupe_script.source_assertion_some_file_is_kept")
    p.after("for dropped_file in ", "it: ")
    p.after("for dropped_file in this.to_drop", '''
            invariant
                it.history@ + it.iter.remaining() =~= drop0, it.index@ == it.history@.len(),
                exists|k: int| 0 <= k < keep0.len() && *retained_file == #[trigger] keep0[k], // @ob C02.dedupe_script.inv_the_retained_file_is_one_of_the_kept_files
                commands@.len() == it.index@, // @ob C02.dedupe_script.inv_one_command_per_dropped_file_so_far
                forall|i: int| 0 <= i < commands@.len() ==> affected(#[trigger] commands@[i]) == drop0[i], // @ob C02.dedupe_script.inv_each_command_affects_its_dropped_file
                forall|i: int| 0 <= i < commands@.len() ==> link_target_is(#[trigger] commands@[i], *retained_file), // @ob C02.dedupe_script.inv_every_link_target_is_the_retained_file
                forall|i: int| 0 <= i < commands@.len() ==> kind_matches(#[trigger] commands@[i], *strategy), // @ob C02.dedupe_script.inv_the_kind_of_command_is_the_requested_operation
       ''')
    ub.spec("\n    }\n}\n\n} // verus!\nfn main() {}\n")
    ub.functions = ["dedupe::PartitionedFileGroup::dedupe_script"]
    ub.assumptions = [
        "`mut self` receiver replaced by a parameter `this` (every `self.` renamed); DedupeOp / PathAndMetadata / FsCommand / PartitionedFileGroup declarations extracted verbatim minus derive lines",
        "Path, FileMetadata, DiskDevices opaque; are_on_same_mount and move_target return arbitrary values (string / mount-table code out of reach)",
        "vstd specifications of Vec::{push, swap_remove, is_empty}, Arc::{new, clone} and of `for` over vec::IntoIter",
        "that to_keep and to_drop are disjoint and that to_keep is not empty whenever to_drop is not is partition's job (tail slice: unit partition_tail)",
    ]
    return ub
