"""C02.partition_filters: Verus on the three guards at the top of dedupe::partition: the two `files.retain(..)` predicates
(regular file; same length as the group) and the staleness bail-out (`modified_before`)."""
from vf.verus_run import Source, Piece, UnitBuild

NAME = "partition_filters"

PRELUDE = r'''// Verus input of unit C02.partition_filters. Hand-written: stand-ins, wrapper signatures and contracts.
use vstd::prelude::*;

verus! {

#[derive(Clone, Copy, PartialEq, Eq, PartialOrd, Ord)] // derive list reduced
'''

MID = r'''
impl vstd::std_specs::cmp::PartialEqSpecImpl for FileLen {
    open spec fn obeys_eq_spec() -> bool { true }
    open spec fn eq_spec(&self, other: &FileLen) -> bool { self.0 == other.0 }
}
impl vstd::std_specs::cmp::PartialOrdSpecImpl for FileLen {
    open spec fn obeys_partial_cmp_spec() -> bool { true }
    open spec fn partial_cmp_spec(&self, other: &FileLen) -> Option<std::cmp::Ordering> {
        if self.0 < other.0 { Some(std::cmp::Ordering::Less) } else if self.0 == other.0 { Some(std::cmp::Ordering::Equal) } else { Some(std::cmp::Ordering::Greater) }
    }
}

#[verifier::external_body] pub struct Path { _p: () }
#[verifier::external_body] pub struct Error { _p: () }
#[verifier::external_body] #[derive(Clone, Copy)] pub struct Timestamp { _p: () }   // chrono::DateTime<FixedOffset> (Copy)
#[verifier::external_body] pub struct Log { _p: () }          // &dyn Log
pub struct PartitionedFileGroup { _p: () }

// stand-in for file::FileMetadata (Deref to fs::Metadata): what the file looks like NOW
pub struct FileMetadata { pub ghost now_is_file: bool, pub ghost now_len: u64 }
impl FileMetadata {
    #[verifier::external_body]
    pub fn is_file(&self) -> (r: bool) ensures r == self.now_is_file { unimplemented!() }
    #[verifier::external_body]
    pub fn len(&self) -> (r: FileLen) ensures r.0 == self.now_len { unimplemented!() }
}
pub struct PathAndMetadata { pub path: Path, pub metadata: FileMetadata }
pub struct DedupeConfig { pub modified_before: Option<Timestamp>, pub no_check_size: bool, pub isolated_roots: Vec<Path>, pub match_links: bool }

// ASSUMED contract of dedupe::was_modified (chrono conversions): true iff some file's modification time is later
pub uninterp spec fn spec_was_modified(files: Seq<PathAndMetadata>, after: Timestamp) -> bool;
#[verifier::external_body]
fn was_modified(files: &Vec<PathAndMetadata>, after: Timestamp, log: &Log) -> (r: bool)
    ensures r == spec_was_modified(files@, after)
{ unimplemented!() }

// the `error` closure of partition: builds the error value of the group
#[verifier::external_body]
fn error(msg: &str) -> (r: Result<PartitionedFileGroup, Error>)
    ensures r is Err
{ unimplemented!() }

// predicate of the 1st `files.retain(..)`: directories, symlinks, ... are never deduplicated
fn retain_regular_files(m: &PathAndMetadata) -> (r: bool)
    ensures r == m.metadata.now_is_file, // @ob C02.partition_filters.only_regular_files_are_processed
'''


def build():
    ub = UnitBuild(NAME)
    f = Source("fclones/src/file.rs")
    src = Source("fclones/src/dedupe.rs")
    fn = src.item("fn partition(")
    ub.spec(PRELUDE)
    ub.piece(Piece(f.item("pub struct FileLen(pub u64);")))
    ub.spec(MID)
    from vf.verus_run import LostAnchor

    def retain_closure(must_contain):
        """The closure body of the `files.retain(..)` call that tests `must_contain` (identified by content, not by position)."""
        for k in range(0, 4):
            try:
                r = src.call_arg(fn, "files.retain", 0, occurrence=k)
            except LostAnchor:
                break
            if all(x in r.text for x in must_contain):
                return r
        raise LostAnchor("no files.retain(..) in partition whose predicate uses %s" % (must_contain,))

    ub.piece(Piece(retain_closure(["is_file()"]), drop_blocks=("if !is_file {",)))
    ub.spec('''

// predicate of the 2nd `files.retain(..)` (skipped only under --no-check-size / a transform): a file whose length differs
// from the length recorded for the group has certainly changed and is left out
fn retain_same_length(m: &PathAndMetadata, file_len: FileLen) -> (r: bool)
    ensures r == (m.metadata.now_len == file_len.0), // @ob C02.partition_filters.files_of_another_length_are_left_out
''')
    ub.piece(Piece(retain_closure([".len()", "file_len"]), drop_blocks=("if !len_ok {",)))
    ub.spec('''

// the staleness bail-out: if any of the remaining files was modified after the report was made, the whole group is
// skipped (an Err leaves partition before any command is planned)
fn staleness_guard(files: &Vec<PathAndMetadata>, config: &DedupeConfig, log: &Log) -> (r: Result<PartitionedFileGroup, Error>)
    ensures
        (config.modified_before is Some && spec_was_modified(files@, config.modified_before->Some_0)) ==> r is Err, // @ob C02.partition_filters.group_skipped_if_any_file_is_newer_than_the_report
        r is Err ==> config.modified_before is Some, // @ob C02.partition_filters.no_staleness_error_without_a_report_timestamp
{
''')
    ub.piece(Piece(src.if_else(fn, "if let Some(max_timestamp) = config.modified_before")))
    ub.spec('''
    Ok(PartitionedFileGroup { _p: () })
}
''')

    # which replicas partition works on: the initialiser of `let mut file_sub_groups` (optional expression slice)
    def sub_groups():
        e = src.let_init(fn, "let mut file_sub_groups =")
        ub.spec('''
// ASSUMED contract of FileSubGroup::group: "sgs is what it returns for (files, roots, group_by_id)" is uninterpreted (its loop
// body is the unit subgroup_grouping)
pub struct FileSubGroup<F> { pub files: Vec<F> }
pub uninterp spec fn spec_is_grouping_of<F>(sgs: Seq<FileSubGroup<F>>, files: Seq<F>, roots: Seq<Path>, group_by_id: bool) -> bool;
impl<F> FileSubGroup<F> {
    #[verifier::external_body]
    pub fn group(files: Vec<F>, roots: &[Path], group_by_id: bool) -> (r: Vec<FileSubGroup<F>>)
        ensures spec_is_grouping_of(r@, files@, roots@, group_by_id)
    { unimplemented!() }
}

// the atomic units partition decides about are the sub-groups of ALL files that passed the guards, formed with the
// --isolate roots of the dedupe command and by file id unless --match-links
fn partition_sub_groups(files: Vec<PathAndMetadata>, config: &DedupeConfig) -> (r: Vec<FileSubGroup<PathAndMetadata>>)
    ensures spec_is_grouping_of(r@, files@, config.isolated_roots@, !config.match_links), // @ob C02.partition_filters.replicas_are_the_sub_groups_under_the_isolated_roots_by_file_id_unless_match_links
{
    ''')
        ub.piece(Piece(e))
        ub.spec("\n}\n")
    ub.optional("sub-grouping call of partition", sub_groups, prefixes=["C02.partition_filters.replicas_are"])
    ub.spec('''
} // verus!
fn main() {}
''')
    ub.functions = ["dedupe::partition [slices: the two retain predicates, the modified_before bail-out, the sub-grouping call]"]
    ub.assumptions = [
        "Vec::retain keeps exactly the elements for which the predicate returns true (std); the `if !config.no_check_size` guard around the 2nd retain is not part of the slice",
        "dedupe::was_modified is an uninterpreted predicate over the files and the timestamp (chrono conversions); FileMetadata::is_file/len return the file's current state",
        "the two logging blocks (`if !is_file { log.warn(..) }`, `if !len_ok { log.warn(..) }`) are dropped from the slices (format! is outside Verus)",
        "FileSubGroup::group is an external function with an uninterpreted result (only which arguments partition passes is proved)",
        "that `files` at the bail-out are ALL files that passed the two filters, and the report timestamp itself (taken by group), are not covered",
    ]
    return ub
