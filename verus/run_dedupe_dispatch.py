"""C07 / C20: Verus on the last statement of main::run_dedupe: under --dry-run the script is printed and never executed;
a real run executes it and asks for file locks unless --no-lock was given."""
from vf.verus_run import Source, Piece, UnitBuild, LostAnchor

NAME = "run_dedupe_dispatch"

PRELUDE = r'''// Verus input of unit run_dedupe_dispatch. Hand-written: stand-ins, wrapper signature, contracts.
use vstd::prelude::*;

verus! {

#[verifier::external_body] pub struct Script { _p: () }       // the command list built by dedupe::dedupe
#[verifier::external_body] pub struct Writer { _p: () }
#[verifier::external_body] pub struct IoError { _p: () }
#[verifier::external_body] pub struct Error { _p: () }
#[verifier::external_body] pub struct Log { _p: () }
#[verifier::external_body] pub struct FileLen { _p: () }
pub struct DedupeResult { pub processed_count: usize, pub reclaimed_space: FileLen }
// the options of config::DedupeConfig the statement reads (`output` is there so that a condition mentioning it type-checks)
#[verifier::external_body] pub struct PathBuf { _p: () }
pub struct DedupeConfig { pub dry_run: bool, pub no_lock: bool, pub output: Option<PathBuf> }

// whether THIS run was asked to be a dry run (ghost copy of the option, so that the effects below can refer to it)
pub uninterp spec fn the_run_is_a_dry_run() -> bool;

#[verifier::external_body]
fn verif_format() -> String { unimplemented!() }
#[verifier::external_body]
fn get_output_writer(config: &DedupeConfig) -> Result<Writer, Error> { unimplemented!() }
#[verifier::external_body]
fn map_output_error(r: Result<DedupeResult, IoError>) -> Result<DedupeResult, Error> { unimplemented!() }
impl Log {
    #[verifier::external_body]
    pub fn info(&self, msg: String) { unimplemented!() }
}

// The two effects; the obligations are their PRE-CONDITIONS.
// printing the script: only under --dry-run
#[verifier::external_body]
fn log_script(script: Script, out: Writer) -> Result<DedupeResult, IoError>
    requires the_run_is_a_dry_run(), // @ob C07.dry_run.the_script_is_printed_only_under_dry_run
{ unimplemented!() }
// executing the script (changes the file system): never under --dry-run; file locks are requested unless --no-lock
pub uninterp spec fn the_run_has_no_lock() -> bool;
#[verifier::external_body]
fn run_script(script: Script, should_lock: bool, log: &Log) -> DedupeResult
    requires
        !the_run_is_a_dry_run(), // @ob C07.dry_run.nothing_is_executed_under_dry_run
        should_lock == !the_run_has_no_lock(), // @ob C20.run_dedupe.locking_is_requested_unless_no_lock
{ unimplemented!() }

// ---- the last `if` of run_dedupe
fn dispatch(dedupe_config: DedupeConfig, script: Script, log: &Log, upto: &str) -> Result<(), Error>
    requires dedupe_config.dry_run == the_run_is_a_dry_run(), dedupe_config.no_lock == the_run_has_no_lock(),
{
'''


def build():
    ub = UnitBuild(NAME)
    src = Source("fclones/src/main.rs")
    fn = src.item("pub fn run_dedupe(")
    ub.spec(PRELUDE)
    # structural anchor: the top-level statement of run_dedupe that calls run_script
    st = src.top_stmt(fn, "run_script(")
    # accepted only if this one statement holds the whole decision (both effects and the test of dry_run); if the code is
    # shaped differently (e.g. an early return for the dry run, then an unconditional run_script) the unit is undecided
    if not ("log_script(" in st.text and "dry_run" in st.text and st.text.lstrip().startswith(("if ", "let ", "match "))):
        raise LostAnchor("the statement of run_dedupe that calls run_script does not also hold the dry_run test and log_script")
    p = ub.piece(Piece(st, format_standin=True,
                       renames=((".map_err(|e| verif_format())?", ""), ("log_script(script, out)", "map_output_error(log_script(script, out))?"))))
    ub.spec("\n    Ok(())\n}\n\n} // verus!\nfn main() {}\n")
    ub.functions = ["main::run_dedupe [statement slice: the final dispatch between log_script and run_script]"]
    ub.assumptions = [
        "DedupeConfig is a stand-in holding the two options read; the script, writer, log and result types are opaque",
        "`format!(..)` is replaced by a stand-in; `.map_err(|e| format!(..))?` on the result of log_script is rewritten to a stand-in conversion applied to the call (Verus: closure without specification)",
        "what log_script / run_script do with the script is NOT covered here (run_script -> FsCommand::execute: the C05/C18/C20 units)",
        "that `dedupe_config` at this point still carries the user's --dry-run / --no-lock (run_dedupe only fills in defaults of other options before) is not covered",
    ]
    return ub
