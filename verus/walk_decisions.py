"""C09 (depth limit, symbolic links): Verus on the decisions of walk.rs that do not depend on the file system walk
itself: the depth guard of visit_dir, the nesting level handed to roots and to the entries of a directory, and the
whole body of visit_link (when a link is reported as a file, when it is followed)."""
import re
from vf.verus_run import Source, Piece, UnitBuild, LostAnchor

NAME = "walk_decisions"

PRELUDE = r'''// Verus input of unit walk_decisions. Hand-written: stand-ins, wrapper signatures, contracts.
use vstd::prelude::*;

verus! {

#[verifier::external_body] pub struct Path { _p: () }
#[verifier::external_body] pub struct IoError { _p: () }
#[verifier::external_body] pub struct Scope { _p: () }
#[verifier::external_body] pub struct IgnoreStack { _p: () }
#[verifier::external_body] pub struct WalkState { _p: () }
pub type DeviceId = u64;
#[derive(PartialEq, Eq, Clone, Copy)]
pub enum EntryType { File, Dir, SymLink, Other }   // same variants as walk::EntryType

// the options of walk::Walk the decisions read
pub struct Walk { pub depth: usize, pub follow_links: bool, pub report_links: bool, pub one_fs: bool }

// what a link points to (facts about the file system): uninterpreted
pub uninterp spec fn spec_link_target(link: &Path) -> Path;
pub uninterp spec fn spec_type_of(p: &Path) -> EntryType;
pub uninterp spec fn spec_same_fs(p: &Path, dev: DeviceId) -> bool;

#[verifier::external_body]
fn verif_format() -> String { unimplemented!() }

impl Walk {
    // ASSUMED contracts of the helpers visit_link calls
    #[verifier::external_body]
    fn resolve_link(&self, link: &Path) -> (r: Result<(Path, EntryType), IoError>)
        ensures r is Ok ==> r->Ok_0.0 == spec_link_target(link) && r->Ok_0.1 == spec_type_of(&spec_link_target(link))
    { unimplemented!() }
    #[verifier::external_body]
    fn same_fs(&self, path: &Path, device: DeviceId) -> (r: bool) ensures r == spec_same_fs(path, device) { unimplemented!() }
    #[verifier::external_body]
    fn log_warn(&self, msg: String) { unimplemented!() }
'''

LINK = r'''
    // Reporting a path as a file / following a link are the two effects of visit_link; the obligations are the
    // PRE-CONDITIONS of these two stand-ins ("only if"): what visit_link must have established before it may call them.
    #[verifier::external_body]
    fn visit_file(&self, path: Path, state: &WalkState)
        requires
            self.report_links, // @ob C09.link.a_link_is_reported_as_a_path_of_its_own_only_with_symbolic_links
            spec_type_of(&spec_link_target(&path)) == EntryType::File, // @ob C09.link.only_a_link_to_a_file_is_reported
    { unimplemented!() }
    #[verifier::external_body]
    fn visit_path(&self, path: Path, dev: DeviceId, scope: &Scope, level: usize, gitignore: IgnoreStack, state: &WalkState)
        requires
            self.follow_links, // @ob C09.link.a_link_is_followed_only_with_follow_links
            !self.one_fs || spec_same_fs(&path, dev), // @ob C09.link.with_one_fs_a_link_leaving_the_file_system_is_not_followed
            !(self.report_links && spec_type_of(&path) == EntryType::File), // @ob C09.link.with_symbolic_links_a_link_to_a_file_is_never_followed
    { unimplemented!() }

    // ---- whole body of Walk::visit_link
    fn visit_link(&self, path: Path, dev: DeviceId, scope: &Scope, level: usize, gitignore: IgnoreStack, state: &WalkState)
    {
'''


def build():
    ub = UnitBuild(NAME)
    src = Source("fclones/src/walk.rs")
    impl = "impl<'a> Walk<'a> {"
    ub.spec(PRELUDE)

    def depth_guard():
        fn = src.fn_in(impl, "fn visit_dir<'s, 'w, F>(")
        st = src.top_stmt(fn, "self.depth")
        # the slice is accepted only if it IS an early-return guard (`if COND { return; }`): a statement that merely
        # mentions `self.depth` (e.g. `let too_deep = ..;` feeding a merged guard) is a different code shape -> undecided
        if not re.match(r"^\s*if\b[^{]*\{\s*return;\s*\}\s*$", st.text, re.S):
            raise LostAnchor("the top-level statement of visit_dir that reads self.depth is not a guard `if .. { return; }`")
        # the level an input path is visited at: 4th argument of the first `self.visit_path(` call of `run`
        run = src.fn_in(impl, "pub fn run<I, F>(")
        e0 = src.call_arg(run, "self.visit_path", 3, occurrence=0)
        ub.spec('''
    // ---- the depth guard of visit_dir, for a directory `dirs_below_the_input_path` levels below an input path. The level
    // variable starts at whatever `run` hands to an input path (expression slice) and grows by one per directory (slice
    // below), so the obligation does not depend on the encoding (0-based with `>=`, 1-based with `>`, ..). Documented
    // (config.rs, README): --depth 0 does not descend into directories at all, --depth 1 reads the directories given as
    // input paths but not their sub-directories: a directory k levels below an input path is read iff k < depth.
    fn visit_dir_depth_guard(&self, dirs_below_the_input_path: usize) -> (reads_the_directory: bool)
        requires dirs_below_the_input_path < usize::MAX - 1024,
        ensures reads_the_directory == (dirs_below_the_input_path < self.depth), // @ob C09.depth.a_directory_is_read_iff_its_level_is_below_the_depth_limit
    {
        let verif_level_of_an_input_path: usize = {
            ''')
        ub.piece(Piece(e0))
        ub.spec('''
        };
        let level: usize = verif_level_of_an_input_path + dirs_below_the_input_path;
''')
        ub.piece(Piece(st, renames=(("return;", "return false;"),)))
        ub.spec("\n        true\n    }\n")
    ub.optional("depth guard of visit_dir", depth_guard, prefixes=["C09.depth.a_directory"])

    def levels():
        fn = src.fn_in(impl, "fn visit_dir<'s, 'w, F>(")
        e = src.call_arg(fn, "self.visit_entry", 3)
        ub.spec('''
    // ---- expression slice: the nesting level handed to the entries of a directory
    fn level_of_the_entries_of_a_directory(level: usize) -> (r: usize)
        requires level < usize::MAX,
        ensures r == level + 1, // @ob C09.depth.entries_of_a_directory_are_one_level_deeper
    {
        ''')
        ub.piece(Piece(e))
        ub.spec("\n    }\n")
    ub.optional("nesting level of the entries of a directory", levels, prefixes=["C09.depth.entries"])

    def link():
        fn = src.fn_in(impl, "fn visit_link<'s, 'w, F>(")
        ub.spec(LINK)
        ub.piece(Piece(src.fn_body(fn), format_standin=True))
        ub.spec("\n    }\n")
    ub.optional("body of visit_link", link, prefixes=["C09.link."])
    ub.spec("\n}\n\n} // verus!\nfn main() {}\n")
    ub.functions = ["walk::Walk::visit_dir [statement slice: depth guard; expression slice: level of the entries]",
                    "walk::Walk::run [expression slice: level of an input path]", "walk::Walk::visit_link"]
    ub.assumptions = [
        "Walk is a stand-in holding the four options read; Path, Scope, IgnoreStack, WalkState are opaque",
        "resolve_link returns the link's target and its type; same_fs is an uninterpreted relation (file-system facts)",
        "`return;` in the depth guard is renamed to `return false;` (the wrapper returns whether the directory is read); `format!(..)` is replaced by a stand-in",
        "visit_link: only the 'only if' direction is expressed (as pre-conditions of visit_file / visit_path); that a link to a file IS reported with --symbolic-links is not expressed",
        "the walk itself (rayon scope, read_dir, hidden files, ignore files, --one-fs for directories, path selectors, the special case for input directories with --depth 0 in run and main) is NOT covered",
    ]
    return ub
