"""C02.partition_tail / C08: Verus on the statement slice of dedupe::partition (replica arithmetic)."""
import os
from vf.verus_run import Source, Piece, UnitBuild

NAME = "partition_tail"
HERE = os.path.dirname(os.path.abspath(__file__))


def build():
    ub = UnitBuild(NAME)
    src = Source("fclones/src/dedupe.rs")
    fn = src.item("fn partition(")
    sl = src.stmts(fn, "let n = max(1, config.rf_over.unwrap_or(1));", "assert!(to_retain.len() >= n || to_drop.is_empty());")
    ub.spec(open(os.path.join(HERE, "partition_tail.prelude.rs")).read())
    p = ub.piece(Piece(sl, rewrite_asserts=True))
    p.after("assert(verif_assert_0);", " // @ob C02.partition_tail.source_assertion_enough_retained_or_nothing_dropped")
    ub.spec("    (to_retain, to_drop)\n}\n\n} // verus!\nfn main() {}\n")
    ub.functions = ["dedupe::partition [statement slice `let n = max(1, ..` .. `assert!(..)`]"]
    ub.assumptions = [
        "std::cmp::max/min on usize are the mathematical max/min (assume_specification + broadcast axioms)",
        "Vec::drain(a..b) yields old[a..b] and leaves old[..a] ++ old[b..]; Vec::extend appends the iterator's items in order",
        "everything in dedupe::partition before the slice (metadata filters, sub-grouping, sorting, keep/drop split) and the final flattening are NOT covered; `to_retain`/`to_drop` are arbitrary vectors",
    ]
    return ub
