"""C02.partition_tail / C08: Verus on the statement slice of dedupe::partition (replica arithmetic)."""
import os
from vf.verus_run import Source, Piece, UnitBuild

NAME = "partition_tail"
HERE = os.path.dirname(os.path.abspath(__file__))


def build():
    ub = UnitBuild(NAME)
    src = Source("fclones/src/dedupe.rs")
    fn = src.item("fn partition(")
    # structural anchor: everything between the keep/drop split (`.partition(..)`) and the construction of the result
    sl = src.after_call_until(fn, ".partition", "Ok(PartitionedFileGroup {")
    ub.spec(open(os.path.join(HERE, "partition_tail.prelude.rs")).read())
    p = ub.piece(Piece(sl, rewrite_asserts=True))
    p.after("assert(verif_assert_0);", " // @ob C02.partition_tail.source_assertion_enough_retained_or_nothing_dropped")
    ub.spec("""    (to_retain, to_drop)
}

// stand-in for FileSubGroup: its two pattern tests are uninterpreted (their bounded contracts are the Kani units
// c08_subgroup_keep_drop_bounded); what is proved is how `partition` combines them when it splits the sub-groups.
pub struct SubGroup { _p: () }
pub uninterp spec fn spec_should_keep(m: &SubGroup, c: &DedupeConfig) -> bool;
pub uninterp spec fn spec_may_drop(m: &SubGroup, c: &DedupeConfig) -> bool;
impl SubGroup {
    #[verifier::external_body]
    pub fn should_keep(&self, config: &DedupeConfig) -> (r: bool) ensures r == spec_should_keep(self, config) { unimplemented!() }
    #[verifier::external_body]
    pub fn may_drop(&self, config: &DedupeConfig) -> (r: bool) ensures r == spec_may_drop(self, config) { unimplemented!() }
}

// expression slice: the predicate of `.partition(|m| ..)` in dedupe::partition (true = retained)
fn split_predicate(m: &SubGroup, config: &DedupeConfig) -> (r: bool)
    ensures
        spec_should_keep(m, config) ==> r, // @ob C08.split.sub_groups_matching_a_keep_pattern_are_retained
        !spec_may_drop(m, config) ==> r, // @ob C08.split.sub_groups_not_matching_the_drop_patterns_are_retained
        r ==> (spec_should_keep(m, config) || !spec_may_drop(m, config)), // @ob C08.split.everything_else_is_droppable
{
    """)
    ub.piece(Piece(src.call_arg(fn, ".partition", 0)))
    ub.spec("\n}\n\n} // verus!\nfn main() {}\n")
    ub.functions = ["dedupe::partition [statement slice `let n = max(1, ..` .. `assert!(..)`]",
                    "dedupe::partition [expression slice: predicate of the keep/drop split]"]
    ub.assumptions = [
        "std::cmp::max/min on usize are the mathematical max/min (assume_specification + broadcast axioms)",
        "Vec::drain(a..b) yields old[a..b] and leaves old[..a] ++ old[b..]; Vec::extend appends the iterator's items in order",
        "everything in dedupe::partition before the slice (metadata filters, sub-grouping, sorting, keep/drop split) and the final flattening are NOT covered; `to_retain`/`to_drop` are arbitrary vectors",
    ]
    return ub
