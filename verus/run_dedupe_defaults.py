"""C04: Verus on the statement of main::run_dedupe that sets the staleness limit of a dedupe run: the user's
--modified-before if given, otherwise the timestamp recorded in the report header."""
from vf.verus_run import Source, Piece, UnitBuild

NAME = "run_dedupe_defaults"

PRELUDE = r'''// Verus input of unit run_dedupe_defaults. Hand-written: stand-ins, wrapper signature, contract.
use vstd::prelude::*;

verus! {

#[verifier::external_body] #[derive(Clone, Copy)] pub struct Timestamp { _p: () }   // chrono::DateTime<FixedOffset> (Copy)
pub struct DedupeConfig { pub modified_before: Option<Timestamp> }                  // the one field the statement touches
pub struct ReportHeader { pub timestamp: Timestamp }

// `dedupe_config` is a local of run_dedupe (the dedupe command's options); `header` is the header read from the report
fn default_staleness_limit(dedupe_config: &mut DedupeConfig, header: &ReportHeader)
    ensures
        old(dedupe_config).modified_before is Some ==> final(dedupe_config).modified_before == old(dedupe_config).modified_before, // @ob C04.run_dedupe.an_explicit_modified_before_is_kept
        old(dedupe_config).modified_before is None ==> final(dedupe_config).modified_before == Some(header.timestamp), // @ob C04.run_dedupe.staleness_limit_defaults_to_the_report_timestamp
        final(dedupe_config).modified_before is Some, // @ob C04.run_dedupe.a_staleness_limit_is_always_set
{
'''


def build():
    ub = UnitBuild(NAME)
    src = Source("fclones/src/main.rs")
    fn = src.item("pub fn run_dedupe(")
    ub.spec(PRELUDE)
    # structural anchor: the top-level statement of run_dedupe that assigns `dedupe_config.modified_before`
    ub.piece(Piece(src.top_stmt(fn, "dedupe_config.modified_before = ")))
    ub.spec("\n}\n\n} // verus!\nfn main() {}\n")
    ub.functions = ["main::run_dedupe [statement slice: default of modified_before]"]
    ub.assumptions = [
        "DedupeConfig / ReportHeader are stand-ins holding the one field each the statement touches; chrono's DateTime is an opaque Copy value",
        "that partition later compares every file against this limit is unit partition_filters; that the header timestamp was taken before `group` began reading files is NOT covered (it is not: DESIGN.md 7.2 D12)",
    ]
    return ub
