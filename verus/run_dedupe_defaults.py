"""C04: Verus on the statement of main::run_dedupe that sets the staleness limit of a dedupe run: the user's
--modified-before if given, otherwise the timestamp recorded in the report header."""
import re
from vf.verus_run import Source, Piece, UnitBuild, LostAnchor, Region

NAME = "run_dedupe_defaults"

PRELUDE = r'''// Verus input of unit run_dedupe_defaults. Hand-written: stand-ins, wrapper signature, contract.
use vstd::prelude::*;

verus! {

#[verifier::external_body] #[derive(Clone, Copy)] pub struct Timestamp { _p: () }   // chrono::DateTime<FixedOffset> (Copy)
pub struct DedupeConfig { pub modified_before: Option<Timestamp> }                  // the one field the statement touches
pub struct ReportHeader { pub timestamp: Timestamp }

// `dedupe_config` is a local of run_dedupe (the dedupe command's options); `header` is the header read from the report
fn default_staleness_limit(dedupe_config: &mut DedupeConfig, header: &ReportHeader)
    ensures
        old(dedupe_config).modified_before is Some ==> final(dedupe_config).modified_before == old(dedupe_config).modified_before, // @ob C04.run_dedupe.an_explicit_modified_before_is_kept
        old(dedupe_config).modified_before is None ==> final(dedupe_config).modified_before == Some(header.timestamp), // @ob C04.run_dedupe.staleness_limit_defaults_to_the_report_timestamp
        final(dedupe_config).modified_before is Some, // @ob C04.run_dedupe.a_staleness_limit_is_always_set
{
'''


SIZE_HEAD = r'''
// ---- the statement of run_dedupe that switches the length check of `partition` off (`no_check_size`): `DCFG` holds the
// dedupe command's options, `GCFG` the options of the `group` run recorded in the report header
pub struct GroupConfigS { pub transform: Option<String>, pub cache: bool, pub match_links: bool, pub isolate: bool }
pub struct DedupeConfigS { pub no_check_size: bool, pub match_links: bool }
fn size_check_default(DCFG: &mut DedupeConfigS, GCFG: &GroupConfigS)
    ensures
        final(DCFG).no_check_size ==> old(DCFG).no_check_size || GCFG.transform is Some, // @ob C04.run_dedupe.the_length_check_is_switched_off_only_by_no_check_size_or_for_a_transformed_report
{
'''


def build():
    ub = UnitBuild(NAME)
    src = Source("fclones/src/main.rs")
    fn = src.item("pub fn run_dedupe(")
    ub.spec(PRELUDE)
    # structural anchor: the top-level statement of run_dedupe that assigns `dedupe_config.modified_before`
    ub.piece(Piece(src.top_stmt(fn, "dedupe_config.modified_before = ")))
    ub.spec("\n}\n")

    def size_check():
        # the one statement of run_dedupe that writes `<cfg>.no_check_size`, inside `if let Command::Group(<c>) = ..`
        ms = list(re.finditer(r"^[ \t]*(\w+)\.no_check_size\s*(\|?=)\s*([^;]+);[ \t]*$", fn.text, re.M))
        mg = re.search(r"if let Command::Group\((?:ref\s+)?(\w+)\)\s*=", fn.text)
        if len(ms) != 1 or not mg or mg.start() > ms[0].start():
            raise LostAnchor("run_dedupe does not write `<cfg>.no_check_size` in exactly one statement inside `if let Command::Group(c) = ..`")
        m = ms[0]
        # the statement must be a direct child of that block (executed whenever the report comes from `group`): a write under
        # a further condition would be cut out of its context, so it is a lost anchor
        between = re.sub(r"//[^\n]*", "", fn.text[mg.end():m.start()])
        if between.count("{") - between.count("}") != 1:
            raise LostAnchor("the statement writing `no_check_size` is not a direct child of the `if let Command::Group(..)` block")
        dcfg, op, rhs, gcfg = m.group(1), m.group(2), m.group(3).strip(), mg.group(1)
        reg = Region(src, fn.start + m.start(), fn.start + m.end())
        ren = ()
        if op == "|=":
            # `|=` on bool is outside Verus' subset: desugared (the right-hand side is evaluated once, the flag can only be set)
            ren = ((reg.text.strip(), "let verif_rhs: bool = %s; if verif_rhs { %s.no_check_size = true; }" % (rhs, dcfg)),)
        ub.spec(SIZE_HEAD.replace("DCFG", dcfg).replace("GCFG", gcfg))
        ub.piece(Piece(reg, renames=ren))
        ub.spec("\n}\n")
    ub.optional("statement of run_dedupe that sets no_check_size", size_check, prefixes=["C04.run_dedupe.the_length_check"])
    ub.spec("\n} // verus!\nfn main() {}\n")
    ub.functions = ["main::run_dedupe [statement slices: default of modified_before; the statement that sets no_check_size]"]
    ub.assumptions = [
        "`X |= E;` on bool is desugared to `let verif_rhs: bool = E; if verif_rhs { X = true; }` (Verus has no `|=` on bool); GroupConfig / DedupeConfig stand-ins hold only the fields named in the prelude",
        "DedupeConfig / ReportHeader are stand-ins holding the one field each the statement touches; chrono's DateTime is an opaque Copy value",
        "that partition later compares every file against this limit is unit partition_filters; that the header timestamp was taken before `group` began reading files is NOT covered (it is not: DESIGN.md 7.2 D12)",
    ]
    return ub
