"""C04: Verus on the statement of main::run_dedupe that sets the staleness limit of a dedupe run: the user's
--modified-before if given, otherwise the timestamp recorded in the report header."""
import re
from vf.verus_run import Source, Piece, UnitBuild, LostAnchor, Region

NAME = "run_dedupe_defaults"

PRELUDE = r'''// Verus input of unit run_dedupe_defaults. Hand-written: stand-ins, wrapper signature, contract.
use vstd::prelude::*;

verus! {

#[verifier::external_body] #[derive(Clone, Copy)] pub struct Timestamp { _p: () }   // chrono::DateTime<FixedOffset> (Copy)
pub struct DedupeConfig { pub modified_before: Option<Timestamp> }                  // the one field the statement touches
pub struct ReportHeader { pub timestamp: Timestamp }

// `dedupe_config` is a local of run_dedupe (the dedupe command's options); `header` is the header read from the report
fn default_staleness_limit(dedupe_config: &mut DedupeConfig, header: &ReportHeader)
    ensures
        old(dedupe_config).modified_before is Some ==> final(dedupe_config).modified_before == old(dedupe_config).modified_before, // @ob C04.run_dedupe.an_explicit_modified_before_is_kept
        old(dedupe_config).modified_before is None ==> final(dedupe_config).modified_before == Some(header.timestamp), // @ob C04.run_dedupe.staleness_limit_defaults_to_the_report_timestamp
        final(dedupe_config).modified_before is Some, // @ob C04.run_dedupe.a_staleness_limit_is_always_set
{
'''


SIZE_HEAD = r'''
// ---- the statement of run_dedupe that switches the length check of `partition` off (`no_check_size`): `DCFG` holds the
// dedupe command's options, `GCFG` the options of the `group` run recorded in the report header
pub struct GroupConfigS { pub transform: Option<String>, pub cache: bool, pub match_links: bool, pub isolate: bool }
pub struct DedupeConfigS { pub no_check_size: bool, pub match_links: bool }
fn size_check_default(DCFG: &mut DedupeConfigS, GCFG: &GroupConfigS)
    ensures
        final(DCFG).no_check_size ==> old(DCFG).no_check_size || GCFG.transform is Some, // @ob C04.run_dedupe.the_length_check_is_switched_off_only_by_no_check_size_or_for_a_transformed_report
{
'''


MERGE_HEAD = r'''
// ---- the whole block `if let Command::Group(GCFG) = .. { .. }` of run_dedupe: the settings of the `group` run recorded in
// the report header are merged into the dedupe command's options
#[verifier::external_body] pub struct PathS { _p: () }   // opaque
pub struct PathsIter { pub ghost items: Seq<PathS> }
impl PathsIter {
    #[verifier::external_body]
    pub fn collect(self) -> (r: Vec<PathS>) ensures r@ == self.items { unimplemented!() }   // ASSUMED std: collect keeps the items, in order
}
pub struct GroupConfigM { pub transform: Option<String>, pub cache: bool, pub match_links: bool, pub isolate: bool, pub hidden: bool }
pub uninterp spec fn spec_rf_over(c: &GroupConfigM) -> usize;        // the replication limit `group` used (GroupConfig::rf_over: Kani contract, C06)
pub uninterp spec fn spec_input_paths(c: &GroupConfigM) -> Seq<PathS>; // the input paths of the `group` run
impl GroupConfigM {
    #[verifier::external_body]
    pub fn rf_over(&self) -> (r: usize) ensures r == spec_rf_over(self) { unimplemented!() }
    #[verifier::external_body]
    pub fn input_paths(&self) -> (r: PathsIter) ensures r.items == spec_input_paths(self) { unimplemented!() }
}
pub struct DedupeConfigM { pub no_check_size: bool, pub match_links: bool, pub rf_over: Option<usize>, pub isolated_roots: Vec<PathS> }
fn merge_header(DCFG: &mut DedupeConfigM, GCFG: &GroupConfigM)
    ensures
        GCFG.transform is Some ==> final(DCFG).no_check_size, // @ob C08.header.a_transform_of_the_group_run_disables_the_size_check
        final(DCFG).match_links == (old(DCFG).match_links || GCFG.match_links), // @ob C08.header.match_links_of_the_group_run_applies_as_if_passed_explicitly
        old(DCFG).rf_over is Some ==> final(DCFG).rf_over == old(DCFG).rf_over, // @ob C08.header.an_explicit_rf_over_is_kept
        old(DCFG).rf_over is None ==> final(DCFG).rf_over == Some(spec_rf_over(GCFG)), // @ob C08.header.rf_over_defaults_to_the_value_used_by_group
        old(DCFG).isolated_roots@.len() == 0 && GCFG.isolate ==> final(DCFG).isolated_roots@ == spec_input_paths(GCFG), // @ob C08.header.isolate_roots_of_the_group_run_apply
        !(old(DCFG).isolated_roots@.len() == 0 && GCFG.isolate) ==> final(DCFG).isolated_roots@ == old(DCFG).isolated_roots@, // @ob C08.header.explicit_isolated_roots_are_kept
{
'''


BASE_HEAD = r'''
// ---- the block `if let Command::Group(ref mut GCFG) = .. { .. }` of main::get_command_config: the options of the group run
// re-parsed from the header's command line get the base directory RECORDED in the header (the directory the report's
// paths and the group run's relative input paths - hence the inherited --isolate roots - were resolved against)
#[verifier::external_body] pub struct PathB { _p: () }   // opaque: two paths are not known to be equal
impl PathB {
    #[verifier::external_body]
    pub fn clone(&self) -> (r: PathB) ensures r == *self { unimplemented!() }
    #[verifier::external_body]
    pub fn is_relative(&self) -> bool { unimplemented!() }
    #[verifier::external_body]
    pub fn is_absolute(&self) -> bool { unimplemented!() }
}
pub struct GroupConfigB { pub base_dir: PathB }
pub struct ReportHeaderB { pub base_dir: PathB }
fn take_base_dir(GCFG: &mut GroupConfigB, HDR: &ReportHeaderB)
    ensures final(GCFG).base_dir == HDR.base_dir, // @ob C08.header.the_group_options_get_the_base_dir_recorded_in_the_header
{
'''


def build():
    ub = UnitBuild(NAME)
    src = Source("fclones/src/main.rs")
    fn = src.item("pub fn run_dedupe(")
    ub.spec(PRELUDE)
    # structural anchor: the top-level statement of run_dedupe that assigns `dedupe_config.modified_before`
    ub.piece(Piece(src.top_stmt(fn, "dedupe_config.modified_before = ")))
    ub.spec("\n}\n")

    def size_check():
        # the one statement of run_dedupe that writes `<cfg>.no_check_size`, inside `if let Command::Group(<c>) = ..`
        ms = list(re.finditer(r"^[ \t]*(\w+)\.no_check_size\s*(\|?=)\s*([^;]+);[ \t]*$", fn.text, re.M))
        mg = re.search(r"if let Command::Group\((?:ref\s+)?(\w+)\)\s*=", fn.text)
        if len(ms) != 1 or not mg or mg.start() > ms[0].start():
            raise LostAnchor("run_dedupe does not write `<cfg>.no_check_size` in exactly one statement inside `if let Command::Group(c) = ..`")
        m = ms[0]
        # the statement must be a direct child of that block (executed whenever the report comes from `group`): a write under
        # a further condition would be cut out of its context, so it is a lost anchor
        between = re.sub(r"//[^\n]*", "", fn.text[mg.end():m.start()])
        if between.count("{") - between.count("}") != 1:
            raise LostAnchor("the statement writing `no_check_size` is not a direct child of the `if let Command::Group(..)` block")
        dcfg, op, rhs, gcfg = m.group(1), m.group(2), m.group(3).strip(), mg.group(1)
        reg = Region(src, fn.start + m.start(), fn.start + m.end())
        ren = ()
        if op == "|=":
            # `|=` on bool is outside Verus' subset: desugared (the right-hand side is evaluated once, the flag can only be set)
            ren = ((reg.text.strip(), "let verif_rhs: bool = %s; if verif_rhs { %s.no_check_size = true; }" % (rhs, dcfg)),)
        ub.spec(SIZE_HEAD.replace("DCFG", dcfg).replace("GCFG", gcfg))
        ub.piece(Piece(reg, renames=ren))
        ub.spec("\n}\n")
    ub.optional("statement of run_dedupe that sets no_check_size", size_check, prefixes=["C04.run_dedupe.the_length_check"])

    def merge():
        mg = re.search(r"if let Command::Group\((?:ref\s+)?(\w+)\)\s*=[^{]*", fn.text)
        if not mg:
            raise LostAnchor("no `if let Command::Group(c) = .. {` in run_dedupe")
        gcfg = mg.group(1)
        body = src.block_contents(src.block_of(fn, mg.group(0).rstrip()))
        ors = list(re.finditer(r"^[ \t]*((\w+)\.\w+)\s*\|=\s*([^;]+);[ \t]*$", body.text, re.M))
        names = set(m.group(2) for m in ors) | set(re.findall(r"^[ \t]*(\w+)\.\w+\s*=[^=]", body.text, re.M))
        if len(names) != 1:
            raise LostAnchor("the block does not write the fields of exactly one configuration value")
        dcfg = names.pop()
        # `X |= E;` on bool desugared as above, one distinct temporary per statement
        ren = tuple((m.group(0).strip(), "let verif_rhs%d: bool = %s; if verif_rhs%d { %s = true; }" % (k, m.group(3).strip(), k, m.group(1)))
                    for k, m in enumerate(ors))
        ub.spec(MERGE_HEAD.replace("DCFG", dcfg).replace("GCFG", gcfg))
        ub.piece(Piece(body, renames=ren))
        ub.spec("\n}\n")
    ub.optional("block of run_dedupe that merges the report header's settings", merge, prefixes=["C08.header."])

    def base_dir():
        g = src.item("fn get_command_config(")
        mh = re.match(r"fn get_command_config\(\s*(\w+)\s*:\s*&ReportHeader\s*\)", g.text)
        mg = re.search(r"if let Command::Group\(ref mut (\w+)\)\s*=[^{]*", g.text)
        if not mh or not mg:
            raise LostAnchor("get_command_config(header: &ReportHeader) has no `if let Command::Group(ref mut c) = .. {`")
        body = src.block_contents(src.block_of(g, mg.group(0).rstrip()))
        ub.spec(BASE_HEAD.replace("GCFG", mg.group(1)).replace("HDR", mh.group(1)))
        ub.piece(Piece(body))
        ub.spec("\n}\n")
    ub.optional("block of get_command_config that restores the base directory", base_dir, prefixes=["C08.header.the_group_options_get"])
    ub.spec("\n} // verus!\nfn main() {}\n")
    ub.functions = ["main::run_dedupe [statement slices: default of modified_before; the statement that sets no_check_size; the whole `if let Command::Group(c)` block merging the header's settings]", "main::get_command_config [slice: the block that restores the group run's base directory]"]
    ub.assumptions = [
        "merge slice: GroupConfig::rf_over and input_paths are uninterpreted (rf_over has a Kani function contract, C06); `.collect()` keeps the items in order; that the header's command line re-parses to the configuration of the group run (get_command_config, clap) is NOT covered",
        "`X |= E;` on bool is desugared to `let verif_rhs: bool = E; if verif_rhs { X = true; }` (Verus has no `|=` on bool); GroupConfig / DedupeConfig stand-ins hold only the fields named in the prelude",
        "DedupeConfig / ReportHeader are stand-ins holding the one field each the statement touches; chrono's DateTime is an opaque Copy value",
        "that partition later compares every file against this limit is unit partition_filters; that the header timestamp was taken before `group` began reading files is NOT covered (it is not: DESIGN.md 7.2 D12)",
    ]
    return ub
