"""C06 / C14 / C08: Verus on the body of the loop of FileSubGroup::group (group.rs): which sub-group (replica) a file
joins - the FIRST --isolate root that is a path prefix of it, else (links not matched) the sub-group of its file id,
else a sub-group of its own - and on the predicate that finally removes sub-groups (only empty ones)."""
import re
from vf.verus_run import Source, Piece, UnitBuild, LostAnchor

NAME = "subgroup_grouping"

PRELUDE = r'''// Verus input of unit subgroup_grouping. Hand-written: stand-ins, wrapper signatures, contracts.
#![feature(allocator_api)]
use vstd::prelude::*;

verus! {

#[verifier::external_body] pub struct Path { _p: () }
#[derive(Clone, Copy, PartialEq, Eq)] // derive list reduced; stand-in with the same two fields (inode is u128 in file.rs)
pub struct FileId { pub device: u64, pub inode: u128 }

// ASSUMED contract of Path::is_prefix_of: an uninterpreted relation "root is a (component-wise) prefix of path"
pub uninterp spec fn spec_is_prefix_of(root: &Path, path: &Path) -> bool;
impl Path {
    #[verifier::external_body]
    pub fn is_prefix_of(&self, other: &Path) -> (r: bool) ensures r == spec_is_prefix_of(self, other) { unimplemented!() }
}

// stand-in for std's AsRef (same name, so that `f.as_ref()` of the extracted text resolves to it): the file's path / id
pub trait AsRef<T> {
    spec fn spec_as_ref(&self) -> &T;
    fn as_ref(&self) -> (r: &T) ensures r == self.spec_as_ref();
}
pub open spec fn path_of<F: AsRef<Path> + AsRef<FileId>>(f: &F) -> &Path { AsRef::<Path>::spec_as_ref(f) }
pub open spec fn id_of<F: AsRef<Path> + AsRef<FileId>>(f: &F) -> FileId { *AsRef::<FileId>::spec_as_ref(f) }

// stand-in for `roots: &[Path]` as the loop body uses it: `roots.iter().position(pred)` (std: index of the first element
// for which the predicate holds)
pub struct Roots { pub v: Vec<Path> }
pub struct RootsIter<'a> { pub r: &'a Roots }
impl Roots {
    pub fn iter(&self) -> (r: RootsIter<'_>) ensures r.r == self { RootsIter { r: self } }
}
impl<'a> RootsIter<'a> {
    #[verifier::external_body]
    pub fn position<P: FnMut(&Path) -> bool>(&mut self, predicate: P) -> (r: Option<usize>)
        requires forall|i: int| 0 <= i < old(self).r.v@.len() ==> predicate.requires((&#[trigger] old(self).r.v@[i],)),
        ensures
            r is Some ==> r->Some_0 < old(self).r.v@.len() && predicate.ensures((&old(self).r.v@[r->Some_0 as int],), true)
                && forall|i: int| 0 <= i < r->Some_0 ==> predicate.ensures((&#[trigger] old(self).r.v@[i],), false),
            r is None ==> forall|i: int| 0 <= i < old(self).r.v@.len() ==> predicate.ensures((&#[trigger] old(self).r.v@[i],), false),
    { unimplemented!() }
}

// stand-in for IndexMap<FileId, FileSubGroup<F>> as the loop body uses it: `entry(id).or_insert(default)` (indexmap: a
// mutable reference to the value stored under `id`, inserting `default` at the END if there is none).
// Ghost view: the keys in insertion order and the files of each value.
pub struct IdMap<F> { pub ghost keys: Seq<FileId>, pub ghost vals: Seq<Seq<F>> }
pub struct Entry<'a, F> { pub m: &'a mut IdMap<F>, pub id: FileId }
impl<F> IdMap<F> {
    pub open spec fn wf(&self) -> bool { self.keys.len() == self.vals.len() && self.keys.no_duplicates() }
    #[verifier::external_body]
    pub fn entry(&mut self, id: FileId) -> (r: Entry<'_, F>)
        ensures r.id == id, *r.m == *old(self), *final(r.m) == *final(self),
    { unimplemented!() }
}
impl<'a, F> Entry<'a, F> {
    #[verifier::external_body]
    pub fn or_insert(self, default: FileSubGroup<F>) -> (r: &'a mut FileSubGroup<F>)
        ensures
            old(self.m).keys.contains(self.id) ==> exists|k: int| 0 <= k < old(self.m).keys.len() && old(self.m).keys[k] == self.id
                && r.files@ == old(self.m).vals[k] && final(self.m).keys == old(self.m).keys
                && final(self.m).vals == old(self.m).vals.update(k, final(r).files@),
            !old(self.m).keys.contains(self.id) ==> r.files@ == default.files@
                && final(self.m).keys == old(self.m).keys.push(self.id)
                && final(self.m).vals == old(self.m).vals.push(final(r).files@),
    { unimplemented!() }
}

// the first root that is a prefix of the path / no root is
pub open spec fn is_first_root(roots: &Roots, path: &Path, i: int) -> bool {
    0 <= i < roots.v@.len() && spec_is_prefix_of(&roots.v@[i], path)
        && forall|j: int| 0 <= j < i ==> !#[trigger] spec_is_prefix_of(&roots.v@[j], path)
}
pub open spec fn under_no_root(roots: &Roots, path: &Path) -> bool {
    forall|j: int| 0 <= j < roots.v@.len() ==> !#[trigger] spec_is_prefix_of(&roots.v@[j], path)
}
// `id_groups.into_values()` (indexmap: the values in insertion order) and the std functions of the final statements
pub struct IntoValues<F> { pub ghost vals: Seq<Seq<F>> }
impl<F> Iterator for IntoValues<F> {
    type Item = FileSubGroup<F>;
    #[verifier::external_body]
    fn next(&mut self) -> Option<FileSubGroup<F>> { unimplemented!() }
}
impl<F> IdMap<F> {
    #[verifier::external_body]
    pub fn into_values(self) -> (r: IntoValues<F>) ensures r.vals == self.vals { unimplemented!() }
}
pub uninterp spec fn iter_view<T, I>(i: I) -> Seq<T>;
pub uninterp spec fn values_of<F>(vals: Seq<Seq<F>>) -> Seq<FileSubGroup<F>>;   // some sub-groups with these files
pub broadcast axiom fn values_of_view<F>(vals: Seq<Seq<F>>)
    ensures groups_view(#[trigger] values_of::<F>(vals)) == vals;
pub broadcast axiom fn into_values_view<F>(i: IntoValues<F>)
    ensures #[trigger] iter_view::<FileSubGroup<F>, IntoValues<F>>(i) == values_of(i.vals);
pub assume_specification<T, A: std::alloc::Allocator, I: IntoIterator<Item = T>> [<std::vec::Vec<T, A> as std::iter::Extend<T>>::extend] (v: &mut Vec<T, A>, i: I)
    ensures final(v)@ == old(v)@ + iter_view::<T, I>(i);
// the elements of s whose decision d[i] is true, in order
pub open spec fn select<T>(s: Seq<T>, d: Seq<bool>) -> Seq<T>
    decreases s.len()
{
    if s.len() == 0 || d.len() != s.len() { Seq::empty() }
    else { select(s.drop_last(), d.drop_last()) + (if d.last() { seq![s.last()] } else { Seq::empty() }) }
}
// std: Vec::retain calls the predicate once per element, in order, and keeps exactly the elements it returned true for
pub assume_specification<T, A: std::alloc::Allocator, P: FnMut(&T) -> bool> [std::vec::Vec::<T, A>::retain] (v: &mut Vec<T, A>, f: P)
    requires forall|x: T| #[trigger] f.requires((&x,)),
    ensures exists|d: Seq<bool>| d.len() == old(v)@.len() && (forall|i: int| 0 <= i < d.len() ==> f.ensures((&old(v)@[i],), #[trigger] d[i]))
        && final(v)@ == select(old(v)@, d);

pub open spec fn groups_view<F>(v: Seq<FileSubGroup<F>>) -> Seq<Seq<F>> { v.map_values(|g: FileSubGroup<F>| g.files@) }

'''

STEP_HEAD = r'''
// ---- the whole body of `for f in files { .. }` of FileSubGroup::group as a function of the variables it reads and
// writes. `prefix_groups` starts with one (empty) sub-group per root (the statement that builds it is NOT covered).
fn group_step<F: AsRef<Path> + AsRef<FileId>>(f: F, roots: &Roots, group_by_id: bool,
                                              prefix_groups: &mut Vec<FileSubGroup<F>>, id_groups: &mut IdMap<F>)
    requires old(prefix_groups)@.len() >= roots.v@.len(), old(id_groups).wf(),
    ensures
        final(prefix_groups)@.len() >= roots.v@.len(), final(id_groups).wf(),
        // a file under a root joins the sub-group of the FIRST such root, whatever its file id; nothing else changes
        forall|i: int| #[trigger] is_first_root(roots, path_of(&f), i) ==>
            groups_view(final(prefix_groups)@) =~~= groups_view(old(prefix_groups)@).update(i, groups_view(old(prefix_groups)@)[i].push(f))
            && *final(id_groups) == *old(id_groups), // @ob C06.group.file_under_a_root_joins_the_sub_group_of_the_first_such_root
        // a file under no root, links not matched (group_by_id): it joins the sub-group of its file id, a new one (appended)
        // if the id was not seen before
        under_no_root(roots, path_of(&f)) && group_by_id ==> groups_view(final(prefix_groups)@) =~~= groups_view(old(prefix_groups)@)
            && (old(id_groups).keys.contains(id_of(&f)) ==> final(id_groups).keys == old(id_groups).keys
                && exists|k: int| 0 <= k < old(id_groups).keys.len() && old(id_groups).keys[k] == id_of(&f)
                    && final(id_groups).vals =~~= old(id_groups).vals.update(k, old(id_groups).vals[k].push(f)))
            && (!old(id_groups).keys.contains(id_of(&f)) ==> final(id_groups).keys == old(id_groups).keys.push(id_of(&f))
                && final(id_groups).vals.len() == old(id_groups).vals.len() + 1
                && final(id_groups).vals.drop_last() =~~= old(id_groups).vals
                && final(id_groups).vals.last() =~~= seq![f]), // @ob C06.group.file_under_no_root_joins_the_sub_group_of_its_file_id
        // a file under no root with --match-links: a sub-group of its own, appended
        under_no_root(roots, path_of(&f)) && !group_by_id ==> *final(id_groups) == *old(id_groups)
            && groups_view(final(prefix_groups)@) =~~= groups_view(old(prefix_groups)@).push(seq![f]), // @ob C06.group.with_match_links_a_file_under_no_root_is_a_replica_of_its_own
{
'''


def build():
    ub = UnitBuild(NAME)
    src = Source("fclones/src/group.rs")
    ub.spec(PRELUDE)
    drop = dict(drop_attrs=("derive", "allow"))
    ub.piece(Piece(src.item("pub struct FileSubGroup<F> {"), **drop))
    ub.spec("\n\n")
    p = ub.piece(Piece(src.item("impl<F> FileSubGroup<F> {")))
    p.after("pub fn empty() -> ", "(r: ")
    p.after("pub fn empty() -> FileSubGroup<F>", ")\n        ensures r.files@.len() == 0\n   ")
    p.after("pub fn single(f: F) -> ", "(r: ")
    p.after("pub fn single(f: F) -> FileSubGroup<F>", ")\n        ensures r.files@ == seq![f]\n   ")
    p.after("pub fn push(&mut self, file: F)", "\n        ensures final(self).files@ == old(self).files@.push(file)\n   ")
    ub.spec("\n")
    fn = src.fn_in("impl<F: AsRef<Path> + AsRef<FileId>> FileSubGroup<F> {", "pub fn group(")

    def step():
        body = src.block_contents(src.block_of(fn, "for f in files "))
        # Verus knows nothing about a closure without an `ensures`: the predicate passed to `position` gets its parameter
        # type, a named result and the obligation as its post-condition; its body stays as written
        clo = src.call_arg(fn, ".position", 0, strip_closure_head=None)
        m = re.match(r"\|\s*(\w+)\s*\|\s*(.+)$", clo.text, re.S)
        if not m or not (body.start <= clo.start and clo.end <= body.end):
            raise LostAnchor("the root test of FileSubGroup::group is not a closure `|x| EXPR` passed to `.position(` in the loop body")
        annotated = ("|%s: &Path| -> (verif_b: bool)\n"
                     "                    ensures verif_b == spec_is_prefix_of(%s, path_of(&f)) // @ob C06.group.root_test_is_root_is_prefix_of_the_files_path\n"
                     "                { %s }" % (m.group(1), m.group(1), m.group(2)))
        ub.spec(STEP_HEAD)
        ub.piece(Piece(body, renames=((clo.text, annotated),)))
        ub.spec("\n}\n")
    ub.optional("loop body of FileSubGroup::group", step, prefixes=["C06.group.file_", "C06.group.with_match_links", "C06.group.root_test"])

    def finish():
        # the statements after the loop: from `prefix_groups.extend(` to the end of the function
        tail = src.tail_after(fn, src.block_of(fn, "for f in files ").text)
        clo = src.call_arg(fn, "prefix_groups.retain", 0, strip_closure_head=None)
        m = re.match(r"\|\s*(\w+)\s*\|\s*(.+)$", clo.text, re.S)
        if not m or not (tail.start <= clo.start and clo.end <= tail.end):
            raise LostAnchor("no `prefix_groups.retain(|x| EXPR)` after the loop of FileSubGroup::group")
        annotated = ("|%s: &FileSubGroup<F>| -> (verif_b: bool)\n"
                     "            ensures verif_b == (%s.files@.len() > 0) // @ob C06.group.only_empty_sub_groups_are_removed\n"
                     "        { %s }" % (m.group(1), m.group(1), m.group(2)))
        ub.spec('''
// ---- the statements after the loop: the sub-groups by file id follow the root / single sub-groups in first-seen
// order, and exactly the empty sub-groups (roots without a file) are removed, nothing is reordered
fn group_finish<F>(prefix_groups: Vec<FileSubGroup<F>>, id_groups: IdMap<F>) -> (r: Vec<FileSubGroup<F>>)
    ensures ({ let all = prefix_groups@ + values_of(id_groups.vals);
               exists|d: Seq<bool>| d.len() == all.len() && (forall|i: int| 0 <= i < d.len() ==> #[trigger] d[i] == (all[i].files@.len() > 0))
                   && r@ == select(all, d) }), // @ob C06.group.result_is_root_groups_then_id_groups_in_order_without_the_empty_ones
{
    broadcast use into_values_view;
    let mut prefix_groups = prefix_groups;
''')
        ub.piece(Piece(tail, renames=((clo.text, annotated),)))
        ub.spec("\n}\n")
    ub.optional("statements after the loop of FileSubGroup::group", finish, prefixes=["C06.group.only_empty", "C06.group.result_is"])
    ub.spec("\n} // verus!\nfn main() {}\n")
    ub.functions = ["group::FileSubGroup::empty", "group::FileSubGroup::single", "group::FileSubGroup::push",
                    "group::FileSubGroup::group [slices: whole body of the `for f in files` loop; the statements after the loop]"]
    ub.assumptions = [
        "Path::is_prefix_of is an uninterpreted relation (its component-wise meaning is not covered)",
        "std AsRef<Path>/AsRef<FileId> are replaced by a stand-in trait of the same name with a spec function (the path / id of the file)",
        "`roots.iter().position(p)` (std) returns the index of the first element satisfying p; `IndexMap::entry(k).or_insert(v)` (indexmap) returns the value stored under k, inserting v at the end if absent: both are stand-ins with these contracts",
        "the loop itself (every file of the input is passed through the body once, in input order), and the initial `prefix_groups` (one empty sub-group per root) are NOT covered",
        "std Vec::extend appends the iterator's items in order; Vec::retain keeps exactly the elements the predicate returned true for, in order; IndexMap::into_values yields the values in insertion order (assumed specifications)",
        "the two closures (`.position(|r| ..)`, `.retain(|sg| ..)`) receive a parameter type, a named result and the obligation as post-condition (Verus knows nothing about a closure without one); their bodies are the source text",
        "FileId stand-in has the two fields of file::FileId (device: u64, inode: u128) and derived equality",
    ]
    return ub
