"""C12.get_guard: Verus on the validation `if` at the end of cache::HashCache::get, with CachedFileInfo verbatim."""
from vf.verus_run import Source, Piece, UnitBuild

NAME = "cache_get_guard"

PRELUDE = r'''// Verus input of unit C12.get_guard. Hand-written: stand-in types, the wrapper signature and its contract.
use vstd::prelude::*;

verus! {

#[verifier::external_body] pub struct FileHash { _p: () }
#[verifier::external_body] pub struct Error { _p: () }

#[derive(Clone, Copy, PartialEq, Eq)] // derive list reduced
'''

MID = r'''
impl vstd::std_specs::cmp::PartialEqSpecImpl for FileLen {
    open spec fn obeys_eq_spec() -> bool { true }
    open spec fn eq_spec(&self, other: &FileLen) -> bool { self.0 == other.0 }
}

// stand-in for file::FileMetadata: `len()` is the current length of the file
pub struct FileMetadata { pub cur_len: u64 }
impl FileMetadata {
    pub fn len(&self) -> (r: FileLen)
        ensures r.0 == self.cur_len
    { FileLen(self.cur_len) }
}

'''


def build():
    ub = UnitBuild(NAME)
    f = Source("fclones/src/file.rs")
    c = Source("fclones/src/cache.rs")
    ub.spec(PRELUDE)
    ub.piece(Piece(f.item("pub struct FileLen(pub u64);")))
    ub.spec(MID)
    ub.piece(Piece(c.item("struct CachedFileInfo {"), drop_attrs=("derive",)))
    ub.spec('''

// statement slice of HashCache::get: `value` is what the database returned for the key, `modified` the current
// modification time of the file in milliseconds (computed just before the slice), `metadata` its current metadata.
// A stored hash is served iff the stored modification time (ms) AND the stored length equal the current ones.
fn get_guard(value: CachedFileInfo, modified: u64, metadata: &FileMetadata) -> (r: Result<Option<(FileLen, FileHash)>, Error>)
    ensures
        r is Ok, // @ob C12.get_guard.validation_never_fails
        r->Ok_0 is Some <==> (value.modified_timestamp_ms == modified && value.file_len.0 == metadata.cur_len), // @ob C12.get_guard.served_iff_same_mtime_ms_and_len
        r->Ok_0 is Some ==> r->Ok_0->Some_0.0.0 == value.data_len.0 && r->Ok_0->Some_0.1 == value.hash, // @ob C12.get_guard.serves_exactly_what_was_stored
{
''')
    fn = c.fn_in("impl HashCache {", "pub fn get(")
    # structural anchor: everything after the computation of `modified` up to the end of the function
    ub.piece(Piece(c.tail_after(fn, ".as_millis() as u64;")))
    ub.spec('''
}

} // verus!
fn main() {}
''')
    ub.functions = ["cache::HashCache::get [slice: validation of the stored entry]"]
    ub.assumptions = [
        "the sled lookup and the conversion of the modification time to milliseconds before the slice are NOT covered (A7)",
        "FileMetadata is a stand-in whose len() returns the current length; FileHash and Error are opaque",
        "derived PartialEq of FileLen is equality of the u64 (PartialEqSpecImpl)",
    ]
    return ub
