// Verus prelude of unit C19.semaphore (hand-written; everything here is an ASSUMPTION about std::sync, A9).
// It is followed by the text of /repo/fclones/src/semaphore.rs from `pub struct Semaphore {` up to `#[cfg(test)]`.
use vstd::prelude::*;
use std::sync::{Arc, Condvar, Mutex, MutexGuard, PoisonError};
use std::ops::Drop;

verus! {

#[verifier::external_type_specification]
#[verifier::external_body]
#[verifier::reject_recursive_types(T)]
pub struct ExMutex<T: ?Sized>(Mutex<T>);

#[verifier::external_type_specification]
#[verifier::external_body]
pub struct ExCondvar(Condvar);

#[verifier::external_type_specification]
#[verifier::external_body]
#[verifier::reject_recursive_types(T)]
pub struct ExMutexGuard<'a, T: ?Sized + 'a>(MutexGuard<'a, T>);

#[verifier::external_type_specification]
#[verifier::external_body]
#[verifier::reject_recursive_types(T)]
pub struct ExPoisonError<T>(PoisonError<T>);

pub assume_specification<T: ?Sized> [std::sync::Mutex::<T>::lock] (m: &Mutex<T>) -> (r: Result<MutexGuard<'_, T>, PoisonError<MutexGuard<'_, T>>>)
    ensures r is Ok, ival(gref(&r->Ok_0)) < isize::MAX as int, ival(gref(&r->Ok_0)) > isize::MIN as int; // A9: never poisoned; the counter stays strictly inside isize

pub assume_specification<'a, T> [std::sync::Condvar::wait::<T>] (c: &Condvar, g: MutexGuard<'a, T>) -> (r: Result<MutexGuard<'a, T>, PoisonError<MutexGuard<'a, T>>>)
    ensures r is Ok;   // the guard's value after wait is unconstrained = every interleaving / spurious wake-up

pub uninterp spec fn gref<'a, 'b, T: ?Sized>(g: &'b MutexGuard<'a, T>) -> &'b T;
pub uninterp spec fn ival<T: ?Sized>(t: &T) -> int;
pub broadcast axiom fn ival_isize(x: &isize)
    ensures #[trigger] ival::<isize>(x) == *x as int;

pub assume_specification<'a, 'b, T: ?Sized> [<MutexGuard<'a, T> as std::ops::Deref>::deref] (g: &'b MutexGuard<'a, T>) -> (r: &'b T)
    ensures ival(r) == ival(gref(g));

pub assume_specification<'a, 'b, T: ?Sized> [<MutexGuard<'a, T> as std::ops::DerefMut>::deref_mut] (g: &'b mut MutexGuard<'a, T>) -> (r: &'b mut T)
    ensures ival(&*r) == ival(gref(&*old(g))), ival(&*final(r)) == ival(gref(&*final(g)));

pub assume_specification<T> [std::sync::Mutex::<T>::new] (_0: T) -> std::sync::Mutex<T>;
pub assume_specification [std::sync::Condvar::new] () -> std::sync::Condvar;
pub assume_specification [std::sync::Condvar::notify_one] (_0: &std::sync::Condvar);

