"""C14.report_header: Verus on the two fold steps of group::write_report that accumulate the header statistics and on
the FileStats literal, with FileLen's Add / Mul<u64> verbatim."""
from vf.verus_run import Source, Piece, UnitBuild

NAME = "report_header"

PRELUDE = r'''// Verus input of unit C14.report_header. Hand-written: stand-ins, *SpecImpl blocks, wrapper signatures and contracts.
use vstd::prelude::*;
use std::ops::{Add, Mul};

verus! {

#[derive(Clone, Copy)] // derive list reduced
'''

MID = r'''
impl vstd::std_specs::ops::AddSpecImpl<FileLen> for FileLen {
    open spec fn obeys_add_spec() -> bool { true }
    open spec fn add_req(self, rhs: FileLen) -> bool { self.0 + rhs.0 <= u64::MAX }
    open spec fn add_spec(self, rhs: FileLen) -> FileLen { FileLen((self.0 + rhs.0) as u64) }
}
impl vstd::std_specs::ops::MulSpecImpl<u64> for FileLen {
    open spec fn obeys_mul_spec() -> bool { true }
    open spec fn mul_req(self, rhs: u64) -> bool { self.0 * rhs <= u64::MAX }
    open spec fn mul_spec(self, rhs: u64) -> FileLen { FileLen((self.0 * rhs) as u64) }
}

// stand-ins: a group with its length and its two counting kernels (their contracts are unit filegroup_counts)
pub struct FileGroupFilter { _p: () }
pub struct GroupConfig { _p: () }
pub struct Group { pub file_len: FileLen }
pub uninterp spec fn spec_redundant(g: &Group) -> usize;
pub uninterp spec fn spec_missing(g: &Group) -> usize;
impl GroupConfig {
    #[verifier::external_body]
    pub fn group_filter(&self) -> FileGroupFilter { unimplemented!() }
}
impl Group {
    #[verifier::external_body]
    pub fn redundant_count(&self, f: &FileGroupFilter) -> (r: usize) ensures r == spec_redundant(self) { unimplemented!() }
    #[verifier::external_body]
    pub fn missing_count(&self, f: &FileGroupFilter) -> (r: usize) ensures r == spec_missing(self) { unimplemented!() }
}

pub open spec fn no_overflow(res: (usize, FileLen), len: FileLen, count: usize) -> bool {
    res.0 + count <= usize::MAX && len.0 * count <= u64::MAX && res.1.0 + len.0 * count <= u64::MAX
}

'''

STEP = '''
// body of the closure of the %(nth)s `.fold(` of write_report: %(what)s files / bytes of the header
// (the parameter names are those of the closure in the source)
fn %(what)s_step(%(acc)s: (usize, FileLen), %(g)s: &Group, config: &GroupConfig) -> (r: (usize, FileLen))
    requires no_overflow(%(acc)s, %(g)s.file_len, spec_%(what)s(%(g)s)),
    ensures
        r.0 == %(acc)s.0 + spec_%(what)s(%(g)s), // @ob C14.header.%(what)s_count_sums_the_groups_%(what)s_counts
        r.1.0 == %(acc)s.1.0 + %(g)s.file_len.0 * spec_%(what)s(%(g)s), // @ob C14.header.%(what)s_size_is_len_times_%(what)s_count
'''


def build():
    ub = UnitBuild(NAME)
    f = Source("fclones/src/file.rs")
    g = Source("fclones/src/group.rs")
    r = Source("fclones/src/report.rs")
    ub.spec(PRELUDE)
    ub.piece(Piece(f.item("pub struct FileLen(pub u64);")))
    ub.spec("\n\n")
    ub.piece(Piece(f.item("impl Add for FileLen {")))
    ub.spec("\n\n")
    ub.piece(Piece(f.item("impl Mul<u64> for FileLen {")))
    ub.spec("\n")
    ub.spec(MID)
    import re
    from vf.verus_run import LostAnchor
    fn = g.item("pub fn write_report(")
    for k, (nth, what) in enumerate((("1st", "redundant"), ("2nd", "missing"))):
        def one(k=k, nth=nth, what=what):
            # the fold is identified by the variables it initialises (`let (redundant_count, ..) = ...fold(..)`), not by its
            # position: a fold rewritten as a `for` loop must not shift the other one into this wrapper
            t = fn.text
            i = t.find("let (%s_count" % what)
            if i < 0 or t.find("let (%s_count" % what, i + 1) >= 0:
                raise LostAnchor("no unique `let (%s_count, ..) =` in write_report" % what)
            depth, j = 0, i
            while j < len(t):
                c = t[j]
                if c in "([{":
                    depth += 1
                elif c in ")]}":
                    depth -= 1
                elif c == ";" and depth == 0:
                    break
                j += 1
            if ".fold(" not in t[i:j]:
                raise LostAnchor("`let (%s_count, ..)` in write_report is not initialised by a fold" % what)
            k = t[:i].count(".fold(")
            whole = g.call_arg(fn, ".fold", 1, strip_closure_head=None, occurrence=k)
            m = re.match(r"\|\s*(\w+)\s*,\s*(\w+)\s*\|", whole.text)
            if not m:
                raise LostAnchor("closure of fold number %d in write_report is not `|acc, group| ..`" % k)
            body = g.call_arg(fn, ".fold", 1, occurrence=k)
            ub.spec(STEP % dict(nth=nth, what=what, acc=m.group(1), g=m.group(2)))
            ub.piece(Piece(body))
            ub.spec("\n")
        ub.optional("header fold of the %s statistics" % what, one, prefixes=["C14.header."])
    ub.spec("\n\n")
    ub.piece(Piece(r.item("pub struct FileStats {"), drop_attrs=("derive",)))
    ub.spec('''

pub struct Groups { pub n: usize }
impl Groups {
    #[verifier::external_body]
    pub fn len(&self) -> (r: usize) ensures r == self.n { unimplemented!() }
}

// the FileStats literal of the report header: every statistic goes to the field of its name
fn header_stats(groups: &Groups, total_count: usize, total_size: FileLen, redundant_count: usize, redundant_size: FileLen,
                missing_count: usize, missing_size: FileLen) -> (s: FileStats)
    ensures
        s.group_count == groups.n && s.total_file_count == total_count && s.total_file_size.0 == total_size.0, // @ob C14.header.totals_in_their_fields
        s.redundant_file_count == redundant_count && s.redundant_file_size.0 == redundant_size.0, // @ob C14.header.redundant_statistics_in_their_fields
        s.missing_file_count == missing_count && s.missing_file_size.0 == missing_size.0, // @ob C14.header.missing_statistics_in_their_fields
{
    ''')
    lit = g.item("FileStats {", fn.start, fn.end)
    ub.piece(Piece(lit))
    ub.spec("\n}\n\n} // verus!\nfn main() {}\n")
    ub.functions = ["group::write_report [slices: the two header fold steps, the FileStats literal]", "file::FileLen::add", "file::FileLen::mul(u64)"]
    ub.assumptions = [
        "redundant_count / missing_count are uninterpreted here (their contracts: unit filegroup_counts); no arithmetic overflow of the totals is ASSUMED (requires)",
        "Iterator::fold applies the closure to every group once, in order (std)",
        "that the body writers list what the header counts (the four format writers) is NOT covered",
    ]
    return ub
