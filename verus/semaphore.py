"""C19: Verus on the whole of semaphore.rs (struct .. Drop impls), extracted verbatim."""
import os
from vf.verus_run import Source, Piece, UnitBuild, Region

NAME = "semaphore"
HERE = os.path.dirname(os.path.abspath(__file__))


def build():
    ub = UnitBuild(NAME)
    src = Source("fclones/src/semaphore.rs")
    a = src._unique("pub struct Semaphore {")
    a = src.text.rfind("\n", 0, a) + 1
    b = src._unique("#[cfg(test)]")
    ub.spec(open(os.path.join(HERE, "semaphore.prelude.rs")).read())
    p = ub.piece(Piece(Region(src, a, b), drop_attrs=("allow",)))
    # acquire: loop invariant + the safety obligations
    p.before("    pub fn acquire(&self) {", "    #[verifier::exec_allows_no_decreases_clause]")
    p.after("    pub fn acquire(&self) {", "\n        broadcast use ival_isize;")
    # the guard variable of `acquire` may be renamed: find it from the decrement statement
    import re
    from vf.verus_run import LostAnchor
    m = re.search(r"^[ \t]*\*(\w+) -= 1;", p.base, re.M)
    if not m:
        raise LostAnchor("no `*<guard> -= 1;` statement in semaphore.rs (acquire)")
    var = m.group(1)
    dec = m.group(0)
    loop_head = "        while *%s <= 0" % var
    if p.has(loop_head):  # the loop needs an (empty) invariant; a loop of another shape is reported as undecided by the runner
        p.after(loop_head, "\n            invariant true,\n       ")
    p.before(dec,
             "        let ghost verif_pre = ival(gref(&%s));\n"
             "        assert(ival(gref(&%s)) > 0); // @ob C19.acquire.permit_available_when_taken" % (var, var))
    p.after(dec,
            "\n        assert(ival(gref(&%s)) == verif_pre - 1); // @ob C19.acquire.takes_exactly_one_permit" % var)
    p.after("    pub fn release(&self) {", "\n        broadcast use ival_isize;")
    # Verus demands opens_invariants/no_unwind clauses on Drop::drop that vstd's Result::unwrap cannot meet:
    # the two one-statement Drop impls are excluded from verification and checked textually below.
    p.before("impl Drop for SemaphoreGuard<'_> {", "#[verifier::external]")
    p.before("impl Drop for OwnedSemaphoreGuard {", "#[verifier::external]")
    ub.spec("\n} // verus!\nfn main() {}\n")
    ub.functions = ["semaphore::Semaphore::new", "semaphore::Semaphore::acquire", "semaphore::Semaphore::release",
                    "semaphore::Semaphore::access", "semaphore::Semaphore::access_owned"]
    ub.assumptions = [
        "A9: Mutex::lock returns the guard (never poisoned) and the protected counter is strictly inside isize's range",
        "A9: Condvar::wait may return with ANY counter value (all interleavings, spurious wake-ups)",
        "MutexGuard deref/deref_mut read/write the protected value (uninterpreted view `ival(gref(g))`)",
        "the two Drop impls are #[verifier::external] here; their effect (exactly one release per guard) is the Kani units c19_guard_roundtrip / c19_owned_guard_roundtrip",
        "liveness (no lost wake-up under every interleaving) is NOT decided; only the local protocol is: re-check in a loop, increment then notify",
    ]
    return ub
