"""C12 / C01: Verus on the tail of FileHasher::hash_transformed: the hash of a transformed file is returned and cached
only after the transform program is known to have exited successfully."""
from vf.verus_run import Source, Piece, UnitBuild

NAME = "hash_transformed_tail"

PRELUDE = r'''// Verus input of unit hash_transformed_tail. Hand-written: ghost process / cache stand-ins, wrapper signature, contract.
use vstd::prelude::*;

verus! {

#[verifier::external_type_specification]
#[verifier::external_body]
pub struct ExIoError(std::io::Error);

#[derive(Clone, Copy)]
pub struct FileLen(pub u64);
#[verifier::external_body] pub struct FileHash { _p: () }
impl Clone for FileHash {
    #[verifier::external_body]
    fn clone(&self) -> (r: FileHash) ensures r == *self { unimplemented!() }
}
#[verifier::external_body] pub struct Key { _p: () }
#[verifier::external_body] pub struct FileMetadata { _p: () }
pub struct FileChunk { pub len: FileLen }

// whether the transform program of THIS execution exits with status 0 (a fact about the outside world)
pub uninterp spec fn the_transform_succeeds() -> bool;

pub struct ExitStatus { pub ghost ok: bool }
impl ExitStatus {
    #[verifier::external_body]
    pub fn success(&self) -> (r: bool) ensures r == self.ok { unimplemented!() }
    #[verifier::external_body]
    pub fn code(&self) -> Option<i32> { unimplemented!() }
}
// `transform_output.child.lock().unwrap().wait()`: the chain is modelled by three stand-ins
pub struct Child { _p: () }
impl Child {
    #[verifier::external_body]
    pub fn wait(&mut self) -> (r: Result<ExitStatus, std::io::Error>)
        ensures r is Ok ==> r->Ok_0.ok == the_transform_succeeds()
    { unimplemented!() }
}
pub struct LockedChild { pub c: Child }
impl LockedChild {
    pub fn unwrap(self) -> Child { self.c }
}
pub struct ChildMutex { _p: () }
impl ChildMutex {
    #[verifier::external_body]
    pub fn lock(&self) -> LockedChild { unimplemented!() }
}
pub struct Execution { pub child: ChildMutex }

#[verifier::external_body]
fn verif_transform_error() -> std::io::Error { unimplemented!() }

pub struct FileHasher { _p: () }
impl FileHasher {
    // ASSUMED frame of store_hash: it may be called only for a transform that succeeded - this pre-condition IS the obligation
    #[verifier::external_body]
    fn store_hash(&self, key: Option<&Key>, metadata: Option<&FileMetadata>, data_len: FileLen, hash: FileHash)
        requires the_transform_succeeds(),
    { unimplemented!() }

    // tail of hash_transformed, after the output stream has been hashed (`hash` is the result of stream_hash)
    fn hash_transformed_tail(&self, hash: Result<(FileLen, FileHash), std::io::Error>, transform_output: Execution,
                             key: Option<&Key>, metadata: Option<&FileMetadata>, chunk: &FileChunk)
        -> (r: Result<(FileLen, FileHash), std::io::Error>)
        ensures
            r is Ok ==> the_transform_succeeds(), // @ob C12.hash_transformed.a_failed_transform_never_yields_a_hash
            r is Ok ==> hash is Ok && r->Ok_0 == hash->Ok_0, // @ob C12.hash_transformed.returns_the_hash_of_the_transformed_stream
    {
        let mut transform_output = transform_output;
'''


def build():
    ub = UnitBuild(NAME)
    h = Source("fclones/src/hasher.rs")
    fn = h.fn_in("impl FileHasher<'_> {", "pub fn hash_transformed(")
    ub.spec(PRELUDE)
    # structural anchor: everything after `let hash = hash?;`-style unwrapping begins, i.e. after the last progress tick
    import re
    from vf.verus_run import LostAnchor, Region
    ticks = [m.end() for m in re.finditer(re.escape("progress(chunk.len.0 as usize);"), fn.text)]
    if not ticks:
        raise LostAnchor("no progress tick in hash_transformed")
    start = fn.start + ticks[-1]
    nl = h.text.find("\n", start) + 1
    end = fn.end - 1
    while h.text[end - 1] in " \t\n":
        end -= 1
    p = ub.piece(Piece(Region(h, nl, end),
                       error_blocks=(("if !exit_status.success() {", "            return Err(verif_transform_error());"),)))
    p.after("self.store_hash(key, metadata, hash.0, hash.1.clone());",
            " // @ob C12.hash_transformed.cached_only_after_the_transform_exited_successfully")
    ub.spec("\n    }\n}\n\n} // verus!\nfn main() {}\n")
    ub.functions = ["hasher::FileHasher::hash_transformed [slice: from the unwrapping of the stream hash to the end]"]
    ub.assumptions = [
        "the method chain `transform_output.child.lock().unwrap().wait()` is modelled by stand-ins: wait() yields the exit status of this execution's program (or an error)",
        "the body of `if !exit_status.success() { .. }` (error-message construction; checked syntactically to end in `return Err(..)`) is replaced by a canonical error return",
        "store_hash's pre-condition `the transform succeeded` is the obligation; what store_hash does with the cache is unit c12_hasher_flow / c12_put_records",
        "the part of hash_transformed before the slice (cache lookup, spawning the program, hashing its output stream) is NOT covered",
    ]
    return ub
