"""Verus route: mechanical extraction of real source text + specification insertion + `verus` run + parsing.

A recipe (verus/<unit>.py) builds its input with the helpers below. The only things that ever happen to source
text are: (1) a contiguous region is cut out of a file of /repo's working tree (an item found by its header and brace
matching, or a statement slice found by its first and last statement inside a named function); (2) documented
mechanical drops / rewrites (doc comments, attribute lines, `assert!(E);` -> `let verif_assert_k = E;
assert(verif_assert_k);`, explicitly listed token drops such as trait bounds on an impl header);
(3) insertions of specification text at anchors. After building, `verify_verbatim` re-derives every piece from the
source file and checks that removing the insertions gives exactly the transformed source region.
"""
import json
import os
import re
import time

from . import common
from .instrument import match_brace


class LostAnchor(Exception):
    pass


class Source:
    def __init__(self, rel):
        self.rel = rel
        self.path = os.path.join(common.REPO, rel)
        self.text = open(self.path).read()

    def _unique(self, literal, lo=0, hi=None):
        hi = len(self.text) if hi is None else hi
        i = self.text.find(literal, lo, hi)
        if i < 0:
            raise LostAnchor("anchor not found in %s: %r" % (self.rel, literal))
        if self.text.find(literal, i + 1, hi) >= 0:
            raise LostAnchor("anchor ambiguous in %s: %r" % (self.rel, literal))
        return i

    def item(self, header, lo=0, hi=None):
        """Region of the item whose header line starts with `header` (unique in [lo,hi)); brace matched."""
        i = self._unique(header, lo, hi)
        # extend to the start of the line
        ls = self.text.rfind("\n", 0, i) + 1
        if self.text[ls:i].strip() != "":
            ls = i
        b = self.text.find("{", i)
        semi = self.text.find(";", i)
        if semi >= 0 and (b < 0 or semi < b):
            return Region(self, ls, semi + 1)
        return Region(self, ls, match_brace(self.text, b))

    def fn_in(self, impl_header, fn_header):
        blk = self.item(impl_header)
        return self.item(fn_header, blk.start, blk.end)

    def expr(self, fn_region, text):
        """Expression slice: exactly `text`, unique inside fn_region."""
        a = self._unique(text, fn_region.start, fn_region.end)
        return Region(self, a, a + len(text))

    def call_arg(self, fn_region, callee, index, strip_closure_head=True, occurrence=None):
        """Region of the index-th argument of the unique (or `occurrence`-th) call `callee(` inside fn_region; for a
        closure argument `|x| EXPR` the region of EXPR."""
        if occurrence is None:
            a = self._unique(callee + "(", fn_region.start, fn_region.end) + len(callee) + 1
        else:
            a = fn_region.start
            for _ in range(occurrence + 1):
                a = self.text.find(callee + "(", a, fn_region.end)
                if a < 0:
                    raise LostAnchor("call %s( number %d not found in %s" % (callee, occurrence, self.rel))
                a += len(callee) + 1
        depth, start, k, i = 0, a, 0, a
        t = self.text
        while i < fn_region.end:
            c = t[i]
            if c in "([{":
                depth += 1
            elif c in ")]}":
                if depth == 0:
                    break
                depth -= 1
            elif c == "|" and depth == 0:
                # closure parameter list: skip to the closing bar
                j = t.find("|", i + 1)
                i = j
            elif c == "," and depth == 0:
                if k == index:
                    break
                k += 1
                start = i + 1
            i += 1
        if k != index:
            raise LostAnchor("call %s( in %s has no argument %d" % (callee, self.rel, index))
        s, e = start, i
        while t[s] in " \t\n":
            s += 1
        while t[e - 1] in " \t\n":
            e -= 1
        if strip_closure_head is None:
            return Region(self, s, e)
        if strip_closure_head and t[s] == "|":
            s = t.find("|", s + 1) + 1
            while t[s] in " \t\n":
                s += 1
        return Region(self, s, e)

    def top_stmt(self, fn_region, text):
        """Region of the top-level statement of the function body that contains `text` (unique inside fn_region).
        A statement ends at a `;` at nesting depth 0 of the body, or at a `}` that closes a depth-0 block and is not
        followed by `else`, `.`, `?`, `;`, `,` or `)` (i.e. a block statement such as `if .. { }` / `for .. { }`)."""
        pos = self._unique(text, fn_region.start, fn_region.end)
        body = self.fn_body(fn_region)
        t, i, depth, start = self.text, body.start, 0, body.start
        while i < body.end:
            c = t[i]
            if t.startswith("//", i):
                i = t.find("\n", i)
                continue
            if c == '"':
                i += 1
                while i < body.end and t[i] != '"':
                    i += 2 if t[i] == "\\" else 1
            elif c in "([{":
                depth += 1
            elif c in ")]}":
                depth -= 1
                if c == "}" and depth == 0:
                    m = re.match(r"\s*(else\b|\.|\?|;|,|\))", t[i + 1:body.end])
                    if not m:
                        if start <= pos <= i:
                            break
                        start = i + 1
            elif c == ";" and depth == 0:
                if start <= pos <= i:
                    break
                start = i + 1
            i += 1
        s, e = start, min(i + 1, body.end)
        while t[s] in " \t\n":
            s += 1
        ls = t.rfind("\n", 0, s) + 1
        if not t[ls:s].strip():
            s = ls
        return Region(self, s, e)

    def block_of(self, fn_region, head):
        """Region of the `{ .. }` block that follows the text `head` (unique inside fn_region), e.g. `for f in files `."""
        a = self._unique(head, fn_region.start, fn_region.end) + len(head)
        b = self.text.find("{", a, fn_region.end)
        if b < 0 or self.text[a:b].strip():
            raise LostAnchor("no block right after %r in %s" % (head, self.rel))
        return Region(self, b, match_brace(self.text, b))

    def stmt_with_block(self, fn_region, head):
        """Region of the statement that starts with `head` (unique inside fn_region) and ends with the `{ .. }` block
        opened on that line, e.g. `match root_idx {`."""
        a = self._unique(head, fn_region.start, fn_region.end)
        b = self.text.find("{", a, fn_region.end)
        if b < 0:
            raise LostAnchor("no block after %r in %s" % (head, self.rel))
        return Region(self, a, match_brace(self.text, b))

    def let_init(self, fn_region, let_prefix):
        """Expression slice: the initialiser of the `let` statement starting with `let_prefix` (e.g. `let x =`), unique
        inside fn_region: everything after the `=` up to the `;` at nesting depth 0."""
        a = self._unique(let_prefix, fn_region.start, fn_region.end) + len(let_prefix)
        t, depth, i = self.text, 0, a
        while i < fn_region.end:
            c = t[i]
            if c in "([{":
                depth += 1
            elif c in ")]}":
                if depth == 0:
                    raise LostAnchor("statement %r in %s does not end with `;`" % (let_prefix, self.rel))
                depth -= 1
            elif c == ";" and depth == 0:
                break
            i += 1
        s, e = a, i
        while t[s] in " \t\n":
            s += 1
        while t[e - 1] in " \t\n":
            e -= 1
        return Region(self, s, e)

    def if_else(self, fn_region, first):
        """Region of the whole `if .. { } else { }` chain whose head contains `first` (unique in fn_region)."""
        a = self._unique(first, fn_region.start, fn_region.end)
        ls = self.text.rfind("\n", 0, a) + 1
        e = match_brace(self.text, self.text.index("{", a))
        while True:
            m = re.match(r"\s*else\s*(if[^{]*)?\{", self.text[e:])
            if not m:
                break
            e = match_brace(self.text, e + m.end() - 1)
        return Region(self, ls, e)

    def block_until_stmt(self, block_region, stmt_prefix):
        """Statements of a `{ .. }` block from its first statement up to (and including) the statement starting with
        `stmt_prefix` (unique in the block); the statement ends at the next `;` at nesting depth 0."""
        t = self.text
        a = block_region.start
        if t[a] != "{":
            raise LostAnchor("expected a block in %s" % self.rel)
        i = self._unique(stmt_prefix, a, block_region.end)
        depth, j = 0, i
        while j < block_region.end:
            c = t[j]
            if c in "([{":
                depth += 1
            elif c in ")]}":
                depth -= 1
            elif c == ";" and depth == 0:
                break
            j += 1
        nl = t.find("\n", a, i)
        return Region(self, (nl + 1) if nl >= 0 else a + 1, j + 1)

    def fn_body(self, fn_region):
        """Statements of a function body (between its outer braces)."""
        t = self.text
        # the body's opening brace is the last '{' that is matched by the region's final '}'
        depth, i, open_at = 0, fn_region.start, None
        while i < fn_region.end:
            if t.startswith("//", i):
                i = t.find("\n", i)
                continue
            if t[i] == "{":
                if depth == 0:
                    open_at = i
                depth += 1
            elif t[i] == "}":
                depth -= 1
            i += 1
        if open_at is None:
            raise LostAnchor("no body in %s" % self.rel)
        nl = t.find("\n", open_at)
        e = fn_region.end - 1
        while t[e - 1] in " \t\n":
            e -= 1
        return Region(self, nl + 1, e)

    def after_call_until(self, fn_region, callee, before):
        """Statements after the statement containing the unique call `callee(` up to (excluding) the line containing `before`."""
        t = self.text
        a = self._unique(callee + "(", fn_region.start, fn_region.end)
        depth, j = 0, a
        while j < fn_region.end:
            c = t[j]
            if c in "([{":
                depth += 1
            elif c in ")]}":
                depth -= 1
            elif c == ";" and depth == 0:
                break
            j += 1
        b = self._unique(before, j, fn_region.end)
        ls = t.rfind("\n", 0, b) + 1
        nl = t.find("\n", j)
        e = ls
        while t[e - 1] in " \t\n":
            e -= 1
        return Region(self, nl + 1, e)

    def block_contents(self, block_region):
        """Everything between the braces of a `{ .. }` block."""
        t = self.text
        if t[block_region.start] != "{" or t[block_region.end - 1] != "}":
            raise LostAnchor("expected a block in %s" % self.rel)
        nl = t.find("\n", block_region.start)
        e = block_region.end - 1
        while t[e - 1] in " \t\n":
            e -= 1
        return Region(self, nl + 1, e)

    def tail_after(self, fn_region, after):
        """Everything after the statement text `after` up to (excluding) the closing brace of the function body."""
        a = self._unique(after, fn_region.start, fn_region.end) + len(after)
        nl = self.text.find("\n", a, fn_region.end)
        e = fn_region.end - 1
        while self.text[e - 1] in " \t\n":
            e -= 1
        return Region(self, nl + 1, e)

    def between(self, fn_region, after, last):
        """Statement slice: everything after the statement text `after` up to the end of the statement `last`."""
        a = self._unique(after, fn_region.start, fn_region.end) + len(after)
        b = self._unique(last, a, fn_region.end)
        nl = self.text.find("\n", a, b)
        return Region(self, (nl + 1) if nl >= 0 else a, b + len(last))

    def stmts(self, fn_region, first, last):
        """Statement slice inside fn_region from the line containing `first` to the end of the statement `last`."""
        a = self._unique(first, fn_region.start, fn_region.end)
        b = self._unique(last, a, fn_region.end)
        ls = self.text.rfind("\n", 0, a) + 1
        return Region(self, ls, b + len(last))


class _ExprMixin:
    pass


class Region:
    def __init__(self, src, start, end):
        self.src, self.start, self.end = src, start, end

    @property
    def text(self):
        return self.src.text[self.start:self.end]

    def line(self):
        return self.src.text.count("\n", 0, self.start) + 1


_DOC = re.compile(r"^[ \t]*//[/!]?.*\n", re.M)
_BLANKS = re.compile(r"\n[ \t]*\n([ \t]*\n)+")


class Piece:
    """Extracted region + mechanical transforms + spec insertions."""

    def __init__(self, region, drop_comments=True, drop_attrs=(), drop_tokens=(), rewrite_asserts=False, keep_attrs=False,
                 renames=(), drop_blocks=(), error_blocks=(), drop_calls=(), format_standin=False):
        self.region = region
        self.transforms = []
        self.params = dict(drop_comments=drop_comments, drop_attrs=tuple(drop_attrs), drop_tokens=tuple(drop_tokens),
                           rewrite_asserts=rewrite_asserts, renames=tuple(renames), drop_blocks=tuple(drop_blocks), error_blocks=tuple(error_blocks),
                           drop_calls=tuple(drop_calls), format_standin=format_standin)
        self.base = self._transform(region.text)
        self.inserts = []  # (offset in base, text, label)

    def _transform(self, t):
        p = self.params
        if p["drop_comments"]:
            t2 = _DOC.sub("", t)
            # trailing `// ...` comments on code lines
            t2 = re.sub(r"[ \t]+//[^\n\"]*$", "", t2, flags=re.M)
            if t2 != t:
                self.transforms.append("comments dropped")
            t = t2
        for a in p["drop_attrs"]:
            rx = re.compile(r"^[ \t]*#\[" + a + r"[^\n]*\]\s*\n", re.M)
            t2 = rx.sub("", t)
            if t2 != t:
                self.transforms.append("attribute lines #[%s..] dropped" % a)
            t = t2
        for tok in p["drop_tokens"]:
            if t.count(tok) != 1:
                raise LostAnchor("token to drop occurs %d times in %s: %r" % (t.count(tok), self.region.src.rel, tok))
            t = t.replace(tok, "")
            self.transforms.append("token dropped: %r" % tok)
        for head in p["drop_blocks"]:
            i = t.find(head)
            if i < 0 or t.find(head, i + 1) >= 0:
                raise LostAnchor("block to drop occurs %d times in %s: %r" % (t.count(head), self.region.src.rel, head))
            ls = t.rfind("\n", 0, i) + 1
            e = match_brace(t, t.index("{", i))
            if t[e:e + 1] == "\n":
                e += 1
            t = t[:ls] + t[e:]
            self.transforms.append("block dropped (logging only): %r { .. }" % head)
        for head in p["drop_calls"]:
            # every statement `HEAD ... );` (a call whose result is not used, e.g. `log.warn(format!(..));`): logging only
            n = 0
            while True:
                m = re.search(r"^[ \t]*" + re.escape(head), t, flags=re.M)
                if not m:
                    break
                o = t.index("(", m.start() + len(m.group(0)) - 1)
                depth, j = 0, o
                while j < len(t):
                    if t[j] == "(":
                        depth += 1
                    elif t[j] == ")":
                        depth -= 1
                        if depth == 0:
                            break
                    j += 1
                if t[j + 1:j + 2] != ";":
                    raise LostAnchor("call %r in %s is not a statement of its own: not dropped" % (head, self.region.src.rel))
                e = j + 2
                if t[e:e + 1] == "\n":
                    e += 1
                t = t[:m.start()] + t[e:]
                n += 1
            if n:
                self.transforms.append("%d statement(s) `%s..);` dropped (logging only)" % (n, head))
        if p["format_standin"]:
            # every `format!( .. )` (message construction; format! is outside Verus) becomes a call of a stand-in `verif_format()`
            n = 0
            while True:
                i = t.find("format!(")
                if i < 0:
                    break
                depth, j = 0, i + len("format!")
                while j < len(t):
                    if t[j] == "(":
                        depth += 1
                    elif t[j] == ")":
                        depth -= 1
                        if depth == 0:
                            break
                    j += 1
                t = t[:i] + "verif_format()" + t[j + 1:]
                n += 1
            if n:
                self.transforms.append("%d `format!(..)` expression(s) replaced by the stand-in `verif_format()` (message text only)" % n)
        for head, replacement in p["error_blocks"]:
            # a block that only builds an error message and returns it: its body is replaced by a canonical error return,
            # after checking syntactically that its last statement is a `return` of `Err(..)` values only
            i = t.find(head)
            if i < 0 or t.find(head, i + 1) >= 0:
                raise LostAnchor("error block occurs %d times in %s: %r" % (t.count(head), self.region.src.rel, head))
            b = t.index("{", i)
            e = match_brace(t, b)
            body = t[b + 1:e - 1]
            stmts = [x for x in re.split(r";\s*\n", body.strip()) if x.strip()]
            last = stmts[-1].strip() if stmts else ""
            if not last.startswith("return ") or "Ok(" in last or "Err(" not in last:
                raise LostAnchor("block %r of %s does not end in `return Err(..)`: not replaced" % (head, self.region.src.rel))
            t = t[:b + 1] + "\n" + replacement + "\n" + t[e - 1:]
            self.transforms.append("body of the error block %r (message construction, ends in `return Err(..)`) replaced by %r"
                                   % (head, replacement.strip()))
        for old, new in p["renames"]:
            if old in t:
                t = t.replace(old, new)
                self.transforms.append("token renamed everywhere: %r -> %r" % (old, new))
        if p["rewrite_asserts"]:
            k = [0]
            # multi-line `assert!(E, "message");` first: joined onto one line without the message
            def rw_multi(m):
                return "%sassert!(%s);" % (m.group(1), re.sub(r"\s+", " ", m.group(2)).strip())
            t2 = re.sub(r'^([ \t]*)assert!\(\s*\n\s*(.*?),\s*\n\s*"[^"\n]*"\s*\n?\s*\);[ \t]*$', rw_multi, t, flags=re.M | re.S)
            if t2 != t:
                self.transforms.append("multi-line assert!(E, \"message\") joined and its message dropped")
            t = t2

            def rw(m):
                k[0] += 1
                n = k[0] - 1
                return "%slet verif_assert_%d = %s;\n%sassert(verif_assert_%d);" % (m.group(1), n, m.group(2), m.group(1), n)
            t2 = re.sub(r"^([ \t]*)assert!\((.*)\);[ \t]*$", rw, t, flags=re.M)
            if t2 != t:
                self.transforms.append("assert!(E); rewritten to `let verif_assert_k = E; assert(verif_assert_k);` (%d)" % k[0])
            t = t2
        return t

    def _find(self, anchor):
        i = self.base.find(anchor)
        if i < 0:
            raise LostAnchor("spec anchor not found in extracted %s text: %r" % (self.region.src.rel, anchor))
        if self.base.find(anchor, i + 1) >= 0:
            raise LostAnchor("spec anchor ambiguous in extracted %s text: %r" % (self.region.src.rel, anchor))
        return i

    def has(self, anchor):
        return self.base.count(anchor) == 1

    def before(self, anchor, text):
        """Inserts spec text on its own line(s) before the line containing the anchor."""
        i = self._find(anchor)
        ls = self.base.rfind("\n", 0, i) + 1
        self.inserts.append((ls, text if text.endswith("\n") else text + "\n"))
        return self

    def after(self, anchor, text):
        """Inserts spec text immediately after the anchor text."""
        i = self._find(anchor)
        self.inserts.append((i + len(anchor), text))
        return self

    def render(self):
        out = self.base
        for off, text in sorted(self.inserts, key=lambda x: x[0], reverse=True):
            out = out[:off] + text + out[off:]
        return out

    def verify_verbatim(self):
        """Independent re-derivation: re-read the file, re-apply the transforms, strip insertions, compare."""
        fresh = open(self.region.src.path).read()[self.region.start:self.region.end]
        saved = self.transforms
        self.transforms = []
        again = self._transform(fresh)
        self.transforms = saved
        rendered = self.render()
        # strip insertions (in ascending order, tracking the shift)
        shift = 0
        stripped = rendered
        for off, text in sorted(self.inserts, key=lambda x: x[0]):
            a = off + shift
            if stripped[a:a + len(text)] != text:
                return False
            stripped = stripped[:a] + stripped[a + len(text):]
            shift += 0  # removal cancels the shift of this insertion
        return stripped == again == self.base


class UnitBuild:
    def __init__(self, name):
        self.name = name
        self.parts = []  # ("spec", text) | ("piece", Piece)
        self.functions = []  # real functions under contract
        self.assumptions = []
        self.drops = []
        self.skipped = []  # optional slices whose anchors were lost: the rest of the unit is still verified

    def optional(self, what, build_fn, prefixes=()):
        """Builds one independent slice of the unit; if its anchors are lost the slice is left out (its obligations are
        then undecided) and the other slices are still verified."""
        mark = len(self.parts)
        try:
            build_fn()
        except LostAnchor as e:
            del self.parts[mark:]
            self.skipped.append({"what": "%s: %s" % (what, e), "prefixes": list(prefixes)})

    def spec(self, text):
        self.parts.append(("spec", text if text.endswith("\n") else text + "\n"))
        return self

    def piece(self, piece):
        self.parts.append(("piece", piece))
        return piece

    def render(self):
        out = []
        for kind, x in self.parts:
            out.append(x if kind == "spec" else x.render() + "\n")
        return "".join(out)

    def pieces(self):
        return [x for k, x in self.parts if k == "piece"]


VERIFICATION_ERRORS = re.compile(
    r"postcondition not satisfied|precondition not satisfied|assertion failed|possible arithmetic (under|over)flow|"
    r"invariant not satisfied|possible division by zero|decreases not satisfied|index out of bounds|"
    r"possible bit shift|recommendation not met|unreachable|constructed value may fail|could not prove termination|"
    r"loop invariant|assert_by|cannot show|not satisfied|unable to prove post-?condition", re.I)
TOOL_LIMIT = re.compile(r"resource limit|rlimit|timed? ?out|unsupported|not supported|does not support|not yet supported", re.I)
OB_MARK = re.compile(r"//\s*@ob\s+(\S+)")
OB_NAMED = re.compile(r"^C\d\d+\.")
SCAN_WORDS = ["assume(", "admit(", "external_body", "assume_specification", "axiom", "external_type_specification",
              "#[verifier::external]", "uninterp"]


class VerusResult:
    def __init__(self, unit):
        self.unit = unit
        self.status = "not-run"
        self.reason = ""
        self.verified_fns = 0
        self.errors = 0
        self.named = []
        self.failed = []  # dicts: obligation, message, line, text
        self.time_s = 0.0
        self.smt_ms = 0
        self.input_path = ""
        self.transforms = []
        self.scan = {}
        self.functions = []
        self.assumptions = []
        self.fn_breakdown = []
        self.textual = []
        self.skipped = []

    def to_json(self):
        return {"unit": self.unit, "status": self.status, "reason": self.reason, "verus_functions_verified": self.verified_fns,
                "named_obligations": self.named, "failed": self.failed, "wall_s": round(self.time_s, 2),
                "stability_under_solver_seeds": getattr(self, "stability", []),
                "smt_ms": self.smt_ms, "extraction_transforms": self.transforms, "assumption_scan": self.scan,
                "functions_under_contract": self.functions, "assumptions": self.assumptions,
                "function_breakdown": self.fn_breakdown, "textual_side_conditions": self.textual,
                "slices_left_out_after_lost_anchor": self.skipped}


_CLOSURE = re.compile(r"(?:(?<=[(,=\{;>])|(?<=return)|(?<=move))\s*(\|[^|{}();]*\|)(?!\|)")


def unannotated_closures(ub):
    """Number of closure expressions in the extracted (transformed) source text that carry no requires/ensures."""
    n = 0
    for p in ub.pieces():
        for m in _CLOSURE.finditer(p.base):
            after = p.base[m.end():m.end() + 200]
            if not re.match(r"\s*(->\s*\([^)]*\)\s*)?\s*(requires|ensures)\b", after):
                n += 1
    return n


def run_unit(recipe_mod, workdir, stability_seeds=()):
    """recipe_mod.build() -> UnitBuild. Returns VerusResult."""
    name = recipe_mod.NAME
    r = VerusResult(name)
    t0 = time.time()
    try:
        ub = recipe_mod.build()
        text = ub.render()
        for p in ub.pieces():
            if not p.verify_verbatim():
                r.status, r.reason = "undecided", "verbatim check failed for a piece of " + p.region.src.rel
                return r
            r.transforms += ["%s:%d: %s" % (p.region.src.rel, p.region.line(), t) for t in (p.transforms or ["verbatim"])]
    except LostAnchor as e:
        r.status, r.reason = "undecided", "lost anchor: %s" % e
        return r
    # a loop in extracted code that did not receive an invariant from the recipe (the code's shape changed): the proof
    # cannot even be attempted - that is "undecided", never a violation
    for pc in ub.pieces():
        rendered = pc.render()
        for m in re.finditer(r"^[ \t]*(?:'\w+:\s*)?(while|loop|for)\b([^{;]*)\{", rendered, re.M):
            if "invariant" not in m.group(2):
                r.status = "undecided"
                r.reason = "a `%s` loop of the extracted code has no invariant in the recipe (code shape changed): %s" % (
                    m.group(1), re.sub(r"\s+", " ", m.group(0))[:80])
                return r
    r.skipped = list(getattr(ub, "skipped", []))
    r.functions = ub.functions
    r.assumptions = ub.assumptions
    r.textual = [{"check": n, "holds": bool(ok), "text": t} for n, ok, t in getattr(ub, "textual", [])]
    path = os.path.join(workdir, name + ".rs")
    open(path, "w").write(text)
    r.input_path = path
    lines = text.splitlines()
    r.named = sorted(set(OB_MARK.findall(text)))
    spec_text = "".join(x for k, x in ub.parts if k == "spec") + "".join(t for p in ub.pieces() for _o, t in p.inserts)
    r.scan = {w: spec_text.count(w) for w in SCAN_WORDS if spec_text.count(w)}
    rc, out, secs = common.run(["verus", path, "--error-format=json", "--output-json", "--time", "--rlimit", "50", "--multiple-errors", "20"],
                               cwd=workdir, timeout=600)
    r.time_s = time.time() - t0
    diags, summary = _split_output(out)
    res = (summary or {}).get("verification-results", {})
    r.verified_fns = res.get("verified", 0)
    r.errors = res.get("errors", 0)
    try:
        smt = summary["times-ms"]["smt"]
        r.smt_ms = smt.get("total", 0)
        for m in smt.get("smt-run-module-times", []):
            for f in m.get("function-breakdown", []):
                r.fn_breakdown.append({"function": f.get("function"), "ms": f.get("time"), "success": f.get("success")})
    except Exception:
        pass
    errs = [d for d in diags if d.get("level") == "error" and not d.get("message", "").startswith("aborting due to")]
    hard = []
    for d in errs:
        msg = d.get("message", "")
        ob, line, ltext = _name_obligation(d, lines, name)
        entry = {"obligation": ob, "message": msg, "line": line, "text": ltext, "rendered": d.get("rendered", "")[:3000]}
        if TOOL_LIMIT.search(msg) and not VERIFICATION_ERRORS.search(msg):
            hard.append(entry)
        elif VERIFICATION_ERRORS.search(msg):
            r.failed.append(entry)
        else:
            hard.append(entry)
    if hard and not r.failed:
        r.status, r.reason = "undecided", "verus front-end / tool-limit error: " + hard[0]["message"][:300]
        r.failed = []
        r.hard = hard
        return r
    if r.failed:
        # A closure of the source text without a specification is opaque to Verus (its result is arbitrary): an obligation
        # that fails in a unit where such a closure APPEARED (more of them than on the tree the recipe was written for) may
        # fail only because of that - undecided, never an alarm. Closures the recipe annotates are not counted.
        extra = unannotated_closures(ub) - getattr(ub, "closures_ok", 0)
        if extra > 0:
            r.status = "undecided"
            r.reason = ("%d closure(s) without a specification appeared in the extracted code (Verus cannot see their results); "
                        "failing obligation(s) not reported: %s" % (extra, ", ".join(f["obligation"] for f in r.failed)[:200]))
            r.failed = []
            return r
        # Conditions Verus generates inside the extracted body (overflow, bounds, pre-condition of a callee that carries no
        # @ob marker) depend on the hand-written wrapper's pre-conditions, which were chosen for the code the recipe was
        # written for. If ONLY such conditions fail - no named obligation of the unit - the wrapper may simply not fit the
        # changed code: undecided. Together with a failing named obligation they are reported with it.
        if not any(OB_NAMED.match(f["obligation"]) for f in r.failed):
            r.status = "undecided"
            r.reason = ("only conditions generated inside the extracted body failed (no named obligation): %s"
                        % ", ".join(f["obligation"] for f in r.failed)[:300])
            r.failed = []
            return r
        r.status = "failed"
        return r
    if rc == -9:
        r.status, r.reason = "undecided", "verus timed out"
    elif summary is None:
        r.status, r.reason = "undecided", "no verus summary (rc=%s): %s" % (rc, out[-300:])
    elif res.get("success") and r.verified_fns > 0 and r.errors == 0:
        r.status = "ok"
        bad = [t for t in r.textual if not t["holds"]]
        if bad:
            r.status, r.reason = "undecided", "textual side condition on excluded code no longer holds: %s (%r)" % (bad[0]["check"], bad[0]["text"])
        # thorough tier: the same input again under other solver seeds; a proof that does not survive a reseeding is
        # reported as undecided (unstable), never as a violation
        r.stability = []
        for sd in stability_seeds:
            rc2, out2, secs2 = common.run(["verus", path, "--output-json", "--rlimit", "50", "--smt-option", "smt.random_seed=%d" % sd],
                                          cwd=workdir, timeout=600)
            _d2, sum2 = _split_output(out2)
            ok2 = bool(((sum2 or {}).get("verification-results", {}) or {}).get("success"))
            r.stability.append({"smt.random_seed": sd, "verified": ok2, "seconds": round(secs2, 1)})
            if not ok2 and r.status == "ok":
                r.status, r.reason = "undecided", "proof not stable: fails under solver seed %d" % sd
    elif r.verified_fns == 0:
        r.status, r.reason = "undecided", "zero functions verified (vacuous)"
    else:
        r.status, r.reason = "undecided", "verus reported failure without a verification diagnostic"
    return r


def _split_output(out):
    diags = []
    summary = None
    # the --output-json object is pretty-printed over several lines; diagnostics are one JSON object per line
    buf = []
    depth = 0
    for line in out.splitlines():
        if depth == 0 and line.startswith('{"$message_type"'):
            try:
                diags.append(json.loads(line))
            except Exception:
                pass
            continue
        if depth == 0 and line.strip() == "{":
            buf = [line]
            depth = 1
            continue
        if depth > 0:
            buf.append(line)
            if line == "}":
                try:
                    summary = json.loads("\n".join(buf))
                except Exception:
                    pass
                depth = 0
    return diags, summary


def _name_obligation(d, lines, unit):
    spans = d.get("spans", [])
    spans = sorted(spans, key=lambda s: not s.get("is_primary"))
    for s in spans:
        for ln in range(s["line_start"], s["line_end"] + 1):
            if 1 <= ln <= len(lines):
                m = OB_MARK.search(lines[ln - 1])
                if m:
                    return m.group(1), ln, lines[ln - 1].strip()
    if spans:
        s = spans[0]
        ln = s["line_start"]
        t = lines[ln - 1].strip() if 1 <= ln <= len(lines) else ""
        slug = re.sub(r"[^A-Za-z0-9]+", "_", d.get("message", "error")).strip("_")[:40]
        return "%s.body.%s@%s" % (unit, slug, re.sub(r"\s+", " ", t)[:80]), ln, t
    return "%s.body.%s" % (unit, d.get("message", "error")[:60]), 0, ""
