"""Shared helpers: paths, scratch directories, exit codes, known findings."""
import atexit
import json
import os
import re
import shutil
import subprocess
import sys
import tempfile
import time

VERIF = os.path.dirname(os.path.dirname(os.path.dirname(os.path.abspath(__file__))))
REPO = os.environ.get("VERIF_REPO", "/repo")
CACHE = os.environ.get("VERIF_CACHE", os.path.join("/verif", ".cache"))
# scratch copies live outside /repo and /verif and are removed when the check ends
SCRATCH_ROOT = os.environ.get("VERIF_SCRATCH", "/var/tmp/verif-scratch")

EXIT_OK, EXIT_VIOLATION, EXIT_UNDECIDED = 0, 1, 2

_scratch_dirs = []


def _sweep_stale(max_age_s=6 * 3600):
    """Removes scratch directories left behind by killed runs (older than 6 h)."""
    try:
        now = time.time()
        for d in os.listdir(SCRATCH_ROOT):
            p = os.path.join(SCRATCH_ROOT, d)
            if os.path.isdir(p) and re.match(r"^(kani|verus|replay|mut|try|man|setup)-", d) and now - os.path.getmtime(p) > max_age_s:
                shutil.rmtree(p, ignore_errors=True)
    except OSError:
        pass


def mkscratch(tag):
    os.makedirs(SCRATCH_ROOT, exist_ok=True)
    _sweep_stale()
    d = tempfile.mkdtemp(prefix=tag + "-", dir=SCRATCH_ROOT)
    _scratch_dirs.append(d)
    return d


def cleanup():
    if os.environ.get("VERIF_KEEP_SCRATCH"):
        return
    for d in _scratch_dirs:
        shutil.rmtree(d, ignore_errors=True)


atexit.register(cleanup)


def run(cmd, cwd=None, env=None, timeout=None, capture=True):
    """Runs a command, returns (rc, stdout+stderr text, seconds). rc = -9 on timeout."""
    t0 = time.time()
    e = dict(os.environ)
    e["CARGO_NET_OFFLINE"] = "true"
    if env:
        e.update(env)
    try:
        p = subprocess.run(cmd, cwd=cwd, env=e, timeout=timeout, stdout=subprocess.PIPE if capture else None,
                           stderr=subprocess.STDOUT if capture else None, text=True, errors="replace")
        return p.returncode, p.stdout or "", time.time() - t0
    except subprocess.TimeoutExpired as ex:
        out = ex.stdout or ""
        if isinstance(out, bytes):
            out = out.decode(errors="replace")
        return -9, out, time.time() - t0


def log(*a):
    print(*a, file=sys.stderr, flush=True)


def load_known_findings():
    """known_findings.txt: lines
         finding: property=<id> obligation=<name> <free text>
         fixed: property=<id> <commit> <what failed>
       Only `finding:` lines suppress a failure (obligation must match exactly)."""
    path = os.path.join(VERIF, "known_findings.txt")
    out = []
    if not os.path.exists(path):
        return out
    for line in open(path):
        line = line.strip()
        if not line or line.startswith("#"):
            continue
        if line.startswith("finding:"):
            f = {"kind": "finding", "text": line[len("finding:"):].strip()}
            for tok in line.split():
                if tok.startswith("property="):
                    f["property"] = tok.split("=", 1)[1]
                if tok.startswith("obligation="):
                    f["obligation"] = tok.split("=", 1)[1]
            out.append(f)
    return out


def write_json(path, obj):
    os.makedirs(os.path.dirname(path), exist_ok=True)
    tmp = path + ".tmp"
    with open(tmp, "w") as f:
        json.dump(obj, f, indent=1, sort_keys=False)
        f.write("\n")
    os.replace(tmp, path)
