"""Scratch copy of /repo's working tree + add-only, cfg(kani)-guarded instrumentation.

What is added (and nothing else):
  * one line at the end of fclones/src/<module>.rs for every /verif/kani/<module>.rs:
        #[cfg(kani)] #[path = "<verif>/kani/<module>.rs"] mod verif_<module>;
    (a child module: it sees the private items it specifies)
  * the contract attribute lines of /verif/kani/contracts.toml directly above the `fn` line whose
    (file, enclosing impl header, fn name) anchor matches exactly once.
The result is diffed against the source: any hunk that is not a pure insertion aborts the check (exit 2).
"""
import difflib
import os
import re
import shutil
import subprocess
import tomllib

from . import common


class InstrumentError(Exception):
    pass


def copy_tree(dst):
    src = common.REPO
    # rsync keeps mtimes; target/ and .git/ are not needed
    rc = subprocess.call(["rsync", "-a", "--exclude", "/target", "--exclude", "/target-verif-replay", "--exclude", ".git", src + "/", dst + "/"])
    if rc != 0:
        raise InstrumentError("rsync failed")


def find_block(text, header_re):
    """Returns (start, end) offsets of the brace block following the unique match of header_re."""
    ms = list(re.finditer(header_re, text, re.M))
    if len(ms) != 1:
        raise InstrumentError("anchor %r matches %d times" % (header_re, len(ms)))
    i = text.index("{", ms[0].end() - 1) if text[ms[0].end() - 1] != "{" else ms[0].end() - 1
    return ms[0].start(), match_brace(text, i)


def match_brace(text, i):
    """text[i] == '{' ; returns the offset just after the matching '}' (comments/strings/chars skipped)."""
    assert text[i] == "{"
    depth = 0
    n = len(text)
    while i < n:
        c = text[i]
        if text.startswith("//", i):
            j = text.find("\n", i)
            i = n if j < 0 else j
            continue
        if text.startswith("/*", i):
            j = text.find("*/", i)
            i = n if j < 0 else j + 2
            continue
        if c == '"':
            # (raw strings r#"..."# handled below)
            i += 1
            while i < n and text[i] != '"':
                i += 2 if text[i] == "\\" else 1
            i += 1
            continue
        if c == "r" and re.match(r'r#+"', text[i:i + 8]):
            m = re.match(r'r(#+)"', text[i:i + 8])
            close = '"' + m.group(1)
            j = text.find(close, i + len(m.group(0)))
            i = n if j < 0 else j + len(close)
            continue
        if c == "'":
            # char literal or lifetime
            m = re.match(r"'(\\.[^']*|[^\\'])'", text[i:i + 12])
            if m:
                i += len(m.group(0))
                continue
        if c == "{":
            depth += 1
        elif c == "}":
            depth -= 1
            if depth == 0:
                return i + 1
        i += 1
    raise InstrumentError("unbalanced braces")


def insert_contracts(root, verif, modules=None):
    path = os.path.join(verif, "kani", "contracts.toml")
    if not os.path.exists(path):
        return []
    spec = tomllib.load(open(path, "rb"))
    done = []
    by_file = {}
    for c in spec.get("contract", []):
        mod = os.path.basename(c["file"])[:-3]
        if modules is not None and mod not in modules:
            continue
        by_file.setdefault(c["file"], []).append(c)
    for rel, cs in by_file.items():
        fpath = os.path.join(root, rel)
        text = open(fpath).read()
        inserts = []  # (offset, text)
        for c in cs:
            lo, hi = 0, len(text)
            if "impl" in c:
                lo, hi = find_block(text, r"^impl(<[^>]*>)?\s+" + re.escape(c["impl"]) + r"\s*\{")
            fn_re = re.compile(r"^[ \t]*(pub(\([a-z]+\))?\s+)?(const\s+)?fn\s+" + re.escape(c["fn"]) + r"\b", re.M)
            ms = [m for m in fn_re.finditer(text, lo, hi)]
            if len(ms) != 1:
                raise InstrumentError("contract anchor %s::%s in %s matches %d times" %
                                      (c.get("impl", ""), c["fn"], rel, len(ms)))
            line_start = ms[0].start()
            indent = re.match(r"[ \t]*", text[line_start:]).group(0)
            block = "".join(indent + a.strip() + "\n" for a in c["attrs"])
            inserts.append((line_start, block))
            done.append("%s %s::%s (%d attribute lines)" % (rel, c.get("impl", ""), c["fn"], len(c["attrs"])))
        for off, block in sorted(inserts, reverse=True):
            text = text[:off] + block + text[off:]
        open(fpath, "w").write(text)
    return done


def attach_modules(root, verif, modules=None):
    """Snapshots /verif/kani/<m>.rs into <root>/.verif_kani/ and attaches each as a child module of fclones/src/<m>.rs."""
    done = []
    kdir = os.path.join(verif, "kani")
    snap = os.path.join(root, ".verif_kani")
    os.makedirs(snap, exist_ok=True)
    for f in sorted(os.listdir(kdir)):
        if not f.endswith(".rs"):
            continue
        mod = f[:-3]
        if modules is not None and mod not in modules:
            continue
        # kani/<source module>__<suffix>.rs is a further child module of fclones/src/<source module>.rs
        src_mod = mod.split("__")[0]
        target = os.path.join(root, "fclones", "src", src_mod + ".rs")
        if not os.path.exists(target):
            raise InstrumentError("no source file for harness module %s (lost anchor)" % mod)
        shutil.copy(os.path.join(kdir, f), os.path.join(snap, f))
        with open(target, "a") as out:
            out.write('\n#[cfg(kani)]\n#[path = "%s"]\npub(crate) mod verif_%s;\n' % (os.path.join(snap, f), mod))
        done.append("fclones/src/%s.rs += mod verif_%s" % (src_mod, mod))
    return done


def check_add_only(root):
    """Every changed file must equal the original after deleting the inserted lines."""
    changed = []
    for dirpath, _dirs, files in os.walk(os.path.join(root, "fclones", "src")):
        for f in files:
            p = os.path.join(dirpath, f)
            rel = os.path.relpath(p, root)
            orig = os.path.join(common.REPO, rel)
            if not os.path.exists(orig):
                raise InstrumentError("instrumentation created a new file in the source tree: " + rel)
            a = open(orig).read().splitlines()
            b = open(p).read().splitlines()
            if a == b:
                continue
            for tag, _i1, _i2, _j1, _j2 in difflib.SequenceMatcher(None, a, b, autojunk=False).get_opcodes():
                if tag in ("replace", "delete"):
                    raise InstrumentError("instrumentation is not add-only in " + rel)
            changed.append(rel)
    return changed


def instrumented_copy(tag, verif=None, modules=None):
    """Returns (scratch_root, report dict)."""
    verif = verif or common.VERIF
    root = common.mkscratch(tag)
    copy_tree(root)
    # many #[kani::stub] attributes on one harness exceed the default macro recursion limit
    lib = os.path.join(root, "fclones", "src", "lib.rs")
    text = open(lib).read()
    open(lib, "w").write('#![cfg_attr(kani, recursion_limit = "512")]\n' + text)
    contracts = insert_contracts(root, verif, modules)
    mods = attach_modules(root, verif, modules)
    changed = check_add_only(root)
    return root, {"contracts_inserted": contracts, "modules_attached": mods, "files_changed": changed}
