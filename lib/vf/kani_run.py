"""Runs Kani harnesses on an instrumented scratch copy of /repo's working tree and parses the results."""
import glob
import json
import os
import re
import shutil
import time

from . import common, instrument

KANI_FLAGS = ["-Z", "stubbing", "-Z", "function-contracts", "-Z", "unstable-options"]
DROP_GLUE_PRETTY = "drop_glue::<std::io::Error>"
MEM_CAP = int(os.environ.get("VERIF_MEM_CAP", str(24 * 10**9)))  # per cargo-kani process tree member (prlimit --as)


class KaniResult:
    def __init__(self, harness):
        self.harness = harness
        self.status = "not-run"  # ok | failed | undecided
        self.reason = ""
        self.checks = 0
        self.failed = 0
        self.unreachable = 0
        self.covers = (0, 0)
        self.failed_checks = []  # (description, location)
        self.time_s = 0.0
        self.stubs = []
        self.raw = ""

    def to_json(self):
        return {"harness": self.harness, "status": self.status, "reason": self.reason, "checks": self.checks,
                "failed": self.failed, "unreachable": self.unreachable, "covers_satisfied": self.covers[0],
                "covers_total": self.covers[1], "failed_checks": [{"obligation": d, "location": l} for d, l in self.failed_checks],
                "solver_and_symex_s": self.time_s, "stubs": self.stubs}


def prepare(tag, modules=None):
    """Instrumented scratch copy with a warmed target directory. Returns (root, report)."""
    root, rep = instrument.instrumented_copy(tag, modules=modules)
    cache = os.path.join(common.CACHE, "kani-target")
    tgt = os.path.join(root, "target")
    if os.path.isdir(cache):
        t0 = time.time()
        shutil.copytree(cache, tgt, symlinks=True)
        rep["target_cache"] = "copied %s in %.1fs" % (cache, time.time() - t0)
    else:
        rep["target_cache"] = "none (cold build)"
    return root, rep


def _filter_log(text):
    """Drops rustc warning blocks from a cargo kani log."""
    out = []
    skip = False
    for line in text.splitlines():
        if len(line) > 3000:
            line = line[:300] + " ...[long line cut]"
        if line.startswith("warning:") or line.startswith("warning["):
            skip = True
            continue
        if skip:
            if line.startswith((" ", "\t")) or line == "" or re.match(r"^\d+ +\|", line):
                continue
            skip = False
        out.append(line)
    return "\n".join(out)


def qualified(h):
    """Fully qualified harness name (`--exact`): a substring filter would also select e.g. `<h>_std`."""
    from . import registry
    m = registry.K[h]["module"] if h in registry.K else "dedupe"
    return "%s::verif_%s::%s" % (m.split("__")[0], m, h)


def cargo_kani(root, harnesses, extra, timeout, jobs=None):
    from . import registry
    cmd = ["prlimit", "--as=%d" % MEM_CAP, "cargo", "kani"] + KANI_FLAGS
    if any(registry.K.get(h, {}).get("c_ffi") for h in harnesses):
        # units whose real code closes a fabricated file descriptor: foreign functions without a body (close) return a
        # nondeterministic value instead of ending the path as "unsupported"
        cmd += ["-Z", "c-ffi"]
    for h in harnesses:
        cmd += ["--harness", qualified(h)]
    cmd += ["--exact"]
    if jobs:
        cmd += ["-j", str(jobs), "--output-format", "terse"]
    cmd += extra
    rc, out, secs = common.run(cmd, cwd=os.path.join(root, "fclones"), timeout=timeout)
    return rc, _filter_log(out), secs


def find_drop_glue_symbol(root, harness=None):
    """Mangled name of drop_glue::<io::Error> in the goto binary of `harness` (None if that harness does not reach it)."""
    pat = os.path.join(root, "target", "kani", "*", "debug", "build", "fclones", "*", "out", "*.pretty_name_map.json")
    for f in sorted(glob.glob(pat), key=os.path.getmtime, reverse=True):
        if harness and ("%d%s." % (len(harness), harness)) not in os.path.basename(f):
            continue
        try:
            m = json.load(open(f))
        except Exception:
            continue
        for k, v in m.items():
            if isinstance(v, str) and v.endswith(DROP_GLUE_PRETTY) and "drop_glue" in k:
                return k
    return None


_HDR = re.compile(r"^Thread (\d+): ?(.*)$")


def parse_parallel(text, results):
    """Parses `-j N --output-format terse` output into results (dict harness-suffix -> KaniResult)."""
    cur = {}  # thread -> harness name
    blocks = []  # (harness, [lines])
    active = None
    for line in text.splitlines():
        m = _HDR.match(line)
        if m:
            th, rest = m.group(1), m.group(2)
            mm = re.match(r"Checking harness (\S+?)\.\.\.$", rest)
            if mm:
                cur[th] = mm.group(1)
                active = None
                continue
            ms = re.match(r"\s*- Stub: (.*)$", rest)
            if ms and th in cur:
                r = _lookup(results, cur[th])
                if r:
                    r.stubs.append(re.sub(r"\s*::\s*", "::", ms.group(1)))
                active = None
                continue
            if th in cur:
                blocks.append((cur[th], [rest]))
                active = blocks[-1][1]
                continue
            active = None
            continue
        if line.startswith(("Manual Harness Summary", "Complete - ", "Verification failed for")):
            active = None
            continue
        if active is not None:
            active.append(line)
    for hname, lines in blocks:
        r = _lookup(results, hname)
        if r is None:
            continue
        _parse_result_block("\n".join(lines), r)


def _lookup(results, full):
    short = full.split("::")[-1]
    return results.get(short)


def _parse_result_block(block, r):
    r.raw += block + "\n"
    m = re.search(r"\*\* (\d+) of (\d+) failed(?: \((.*?)\))?", block)
    if m:
        r.failed = int(m.group(1))
        r.checks = int(m.group(2))
        mu = re.search(r"(\d+) unreachable", m.group(3) or "")
        r.unreachable = int(mu.group(1)) if mu else 0
    m = re.search(r"\*\* (\d+) of (\d+) cover properties satisfied", block)
    if m:
        r.covers = (int(m.group(1)), int(m.group(2)))
    for m in re.finditer(r'Failed Checks: (.*?)\n\s*File: ([^\n]*)', block, re.S):
        desc = re.sub(r"\s+", " ", m.group(1)).strip().strip('"')
        loc = m.group(2).strip()
        mc = re.search(r"in (\S+?)::\{closure#\d+\}", loc)
        if not re.match(r"^C\d\d+\.", desc) and mc and desc.startswith("|"):
            desc = "contract(%s): %s" % (mc.group(1), desc)
        r.failed_checks.append((desc, loc))
    m = re.search(r"Verification Time: ([\d.]+)s", block)
    if m:
        r.time_s = float(m.group(1))
    if "VERIFICATION:- SUCCESSFUL" in block:
        r.status = "ok"
    elif "VERIFICATION:- FAILED" in block:
        r.status = "failed"
    if re.search(r"CBMC timed out|timed out|Timeout", block):
        r.status, r.reason = "undecided", "harness timeout"
    if re.search(r"CBMC failed|out of memory|Out of memory|std::bad_alloc|SIGKILL|signal", block) and r.status != "ok":
        if not r.failed_checks:
            r.status, r.reason = "undecided", "CBMC did not finish: " + block.strip().splitlines()[-1][:200]


UNDECIDED_OBLIGATION = re.compile(r"unwinding assertion|is not currently supported by Kani|unsupported|"
                                  r"recursion unwinding assertion|Kani does not support", re.I)


def classify(r, expect_covers=True):
    """Turns raw parse into ok / failed / undecided following DESIGN §3.2."""
    if r.status == "not-run":
        r.status, r.reason = "undecided", r.reason or "no result parsed (compile error, ICE, timeout or memory cap)"
        return
    if r.status == "failed" and any("pointer to unallocated memory" in d for d, _ in r.failed_checks):
        # CBMC's memory model gave up (seen with Vec growth from a dangling pointer next to symbolic statics): every other
        # failure of this harness is then unreliable - a tool limit, not a violation
        r.status = "undecided"
        r.reason = "CBMC memory-model limitation (pointer to unallocated memory); failures of this harness are not trusted"
        return
    if r.status == "failed":
        real = [(d, l) for d, l in r.failed_checks if not UNDECIDED_OBLIGATION.search(d)]
        if not real:
            r.status = "undecided"
            r.reason = ("only tool-limit checks failed: " + "; ".join(d for d, _ in r.failed_checks)[:300]) if r.failed_checks else \
                "Kani reported a failure but no failing check could be parsed (unsupported construct or internal limit)"
        else:
            r.failed_checks = real + [(d, l) for d, l in r.failed_checks if UNDECIDED_OBLIGATION.search(d)]
        return
    if r.status == "ok":
        if r.checks == 0:
            r.status, r.reason = "undecided", "zero obligations generated (vacuous)"
        elif expect_covers and r.covers[1] > 0 and r.covers[0] < r.covers[1]:
            r.status, r.reason = "undecided", "cover not satisfied (%d of %d): vacuity guard" % r.covers


def run_units(tag, harnesses, per_harness_timeout, jobs=8, keep=False, modules=None, _depth=0):
    """Build + verify. Returns (dict harness->KaniResult, info dict)."""
    t0 = time.time()
    results = {h: KaniResult(h) for h in harnesses}
    info = {}
    try:
        root, rep = prepare(tag, modules)
    except instrument.InstrumentError as e:
        for r in results.values():
            r.status, r.reason = "undecided", "instrumentation failed: %s" % e
        info["wall_s"] = round(time.time() - t0, 1)
        return results, info
    info["instrumentation"] = rep
    info["scratch"] = root
    # 1. compile only (also yields the mangled name of io::Error's drop glue)
    rc, out, secs = cargo_kani(root, harnesses, ["--only-codegen"], timeout=1800)
    info["compile_s"] = round(secs, 1)
    if rc != 0 and _depth == 0:
        from . import registry
        groups = {}
        for h in harnesses:
            groups.setdefault(registry.K.get(h, {}).get("module", "?"), []).append(h)
        if len(groups) > 1:
            # one harness module no longer compiles against the working tree (e.g. a private function it calls changed
            # its signature): decide the others, module by module
            merged = {}
            info["split_after_compile_error"] = sorted(groups)
            info["verify_s"] = 0.0
            for mod, hs in sorted(groups.items()):
                r2, i2 = run_units(tag, hs, per_harness_timeout, jobs=jobs, modules=registry.modules_for(hs), _depth=1)
                merged.update(r2)
                info["verify_s"] = round(info["verify_s"] + i2.get("verify_s", 0.0), 1)
                for k2 in ("cmd", "log_tail", "full_log", "scratch", "drop_glue_symbol"):
                    if k2 in i2 and k2 not in info:
                        info[k2] = i2[k2]
                if "compile_error" in i2:
                    info.setdefault("compile_error", i2["compile_error"])
            info["wall_s"] = round(time.time() - t0, 1)
            return merged, info
    if rc != 0:
        kind = "Kani internal compiler error" if "internal compiler error" in out else "compile error"
        tail = "\n".join(out.splitlines()[-40:])
        for r in results.values():
            r.status, r.reason = "undecided", kind
        info["compile_error"] = tail
        info["wall_s"] = round(time.time() - t0, 1)
        return results, info
    base = ["--harness-timeout", "%ds" % per_harness_timeout]
    # harnesses that reach io::Error's drop glue get the recursion bound (DESIGN F6c); the others (e.g. function-contract
    # harnesses, where an unknown --unwindset entry makes CBMC exit with status 1) run without it
    syms = {h: find_drop_glue_symbol(root, h) for h in harnesses}
    from . import registry
    ffi = [h for h in harnesses if registry.K.get(h, {}).get("c_ffi")]
    with_sym = [h for h in harnesses if syms[h] and h not in ffi]
    without = [h for h in harnesses if not syms[h] and h not in ffi]
    info["drop_glue_symbol"] = next((v for v in syms.values() if v), None)
    info["verify_s"] = 0.0
    cmds, logs = [], []
    ffi_extra = base + (["--cbmc-args", "--unwindset", (info["drop_glue_symbol"] or "") + ":1"] if any(syms[h] for h in ffi) else [])
    for batch, extra in ((with_sym, base + ["--cbmc-args", "--unwindset", (info["drop_glue_symbol"] or "") + ":1"]), (without, base),
                         (ffi, ffi_extra)):
        if not batch:
            continue
        cmds.append("cargo kani " + " ".join(KANI_FLAGS) + (" -Z c-ffi" if batch is ffi else "") + " " +
                    " ".join("--harness " + qualified(h) for h in batch) + " --exact -j %d --output-format terse " % jobs + " ".join(extra))
        n_batches = (len(batch) + jobs - 1) // jobs
        rc, out, secs = cargo_kani(root, batch, extra, timeout=per_harness_timeout * n_batches + 600, jobs=jobs)
        info["verify_s"] = round(info["verify_s"] + secs, 1)
        info["kani_rc"] = rc
        parse_parallel(out, results)
        if os.environ.get("VERIF_DUMP_RAW"):   # debugging aid: raw verifier output of this batch
            os.makedirs(os.environ["VERIF_DUMP_RAW"], exist_ok=True)
            open(os.path.join(os.environ["VERIF_DUMP_RAW"], "kani_batch_%d.log" % int(time.time())), "w").write(out)
        logs.append(out)
    info["cmd"] = " ; ".join(cmds)
    for r in results.values():
        classify(r)
    out = "\n".join(logs)
    info["log_tail"] = "\n".join(out.splitlines()[-60:])
    info["full_log"] = out
    info["wall_s"] = round(time.time() - t0, 1)
    return results, info


def counterexample(root, harness, timeout=480):
    """Re-runs one failing harness sequentially with concrete playback; returns the text after the results."""
    extra = ["-Z", "concrete-playback", "--concrete-playback=print"]
    sym = find_drop_glue_symbol(root, harness)
    if sym:
        extra += ["--cbmc-args", "--unwindset", sym + ":1"]
    rc, out, secs = cargo_kani(root, [harness], extra, timeout=timeout)
    failing = []
    for m in re.finditer(r"Check \d+: (\S+)\n\s*- Status: FAILURE\n\s*- Description: \"(.*)\"\n\s*- Location: (.*)", out):
        failing.append({"check": m.group(1), "description": m.group(2), "location": m.group(3)})
    i = out.find("Concrete playback unit test")
    playback = out[i:] if i >= 0 else ""
    return {"failing_checks": failing, "concrete_playback": playback[:20000], "seconds": round(secs, 1), "rc": rc}
