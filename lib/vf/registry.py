"""Which units decide which property. A unit is one real function (or statement slice) + its contract + the
harness / Verus input discharging it.

kani unit fields:  fn = real function(s) under contract, cls = "proved" (loop-free or fully unwound over full-domain
symbolic inputs, unwinding assertions on) | "bounded" (+ bound), tier = quick | thorough, t = per-harness timeout (s)
"""

K = {}


# harness module (kani/<m>.rs) -> modules it needs attached as well
MODULE_DEPS = {
    "path": [], "file": [], "cache": ["file"],
    "dedupe": ["path", "file"],
    "reflink": ["dedupe", "path", "file"],
    "hasher": ["dedupe", "path", "file", "cache"],
    "transform": ["path"],
    "config": [],
    "semaphore": [],
    "dedupe__c08": ["path", "file"],
    "dedupe__c08b": ["path"],
    "path__c06": ["path"],
    "group": ["path"],
    "lock": ["path"],
    "dedupe__c20": ["path"],
    "dedupe__c07": ["dedupe", "path", "file"],
    "dedupe__c07b": ["dedupe", "path", "file"],
}


def k(name, fn, cls="proved", tier="quick", t=900, bound=None, note="", replay=None, module=None, contract_ob=None, c_ffi=False):
    if module is None:
        module = "reflink" if "reflink" in name else "dedupe"
    K[name] = dict(fn=fn, cls=cls, tier=tier, t=t, bound=bound, note=note, replay=replay, module=module,
                   contract_ob=contract_ob, c_ffi=c_ffi)


def modules_for(harnesses):
    mods = set()
    for h in harnesses:
        m = K[h]["module"]
        mods.add(m)
        mods.update(MODULE_DEPS[m])
    return sorted(mods)


# ---- dedupe.rs / reflink.rs: ghost file system family (kani/dedupe.rs, kani/reflink.rs)
k("c05_safe_remove", "dedupe::FsCommand::safe_remove")
k("c05_execute_remove", "dedupe::FsCommand::execute [Remove]")
k("c05_execute_hardlink", "dedupe::FsCommand::execute [HardLink] + safe_remove")
k("c05_execute_softlink", "dedupe::FsCommand::execute [SoftLink] + safe_remove")
k("c05_linux_reflink", "reflink::linux_reflink")
k("c05_execute_reflink", "dedupe::FsCommand::execute [RefLink] + reflink::reflink + linux_reflink")
k("c20_lock_first_remove", "dedupe::FsCommand::execute [Remove] (locking)", replay=("lock", "remove"))
k("c20_lock_first_hardlink", "dedupe::FsCommand::execute [HardLink] (locking)", replay=("lock", "hardlink"))
k("c20_lock_first_softlink", "dedupe::FsCommand::execute [SoftLink] (locking)", replay=("lock", "softlink"))
k("c20_lock_first_reflink", "dedupe::FsCommand::execute [RefLink] (locking)", replay=("lock", "reflink"))
k("c20_lock_first_move", "dedupe::FsCommand::execute [Move] (locking)", replay=("lock", "move"))
k("c18_execute_move_rename", "dedupe::FsCommand::execute [Move, use_rename] + move_rename + move_copy")
k("c18_execute_move_copy", "dedupe::FsCommand::execute [Move, copy] + move_copy")
k("c18_execute_move_rename_existing", "dedupe::FsCommand::execute [Move, use_rename, target exists]")
k("c18_execute_move_copy_existing", "dedupe::FsCommand::execute [Move, copy, target exists]")

# ---- lock.rs
k("c20_file_lock_new", "lock::FileLock::new + fcntl_lock", module="lock", t=600, c_ffi=True)
for _o in ("granted", "unsupported", "refused"):
    k("c20_maybe_lock_" + _o, "dedupe::FsCommand::maybe_lock [FileLock::new: %s]" % _o, module="dedupe__c20", t=600)
for _o in ("after_unsupported_refused", "after_refused_granted", "after_granted_refused"):
    k("c20_maybe_lock_" + _o, "dedupe::FsCommand::maybe_lock [two files in sequence]", module="dedupe__c20", t=600)
# ---- config.rs (kani/config.rs + kani/contracts.toml)
k("c06_rf_over_contract", "config::GroupConfig::rf_over [function contract]", module="config", t=300, contract_ob="C06.rf_over.contract")
k("c06_rf_under_contract", "config::GroupConfig::rf_under [function contract]", module="config", t=300, contract_ob="C06.rf_under.contract")
k("c06_group_filter", "config::GroupConfig::group_filter (against the contract of rf_over)", module="config", t=300)
# ---- dedupe.rs, C08 (kani/dedupe__c08.rs)
k("c08_subgroup_keep_drop_bounded", "dedupe::FileSubGroup::should_keep + FileSubGroup::may_drop", module="dedupe__c08", t=600,
  cls="bounded", bound="sub-groups of <= 3 paths; path-level pattern decisions arbitrary")
k("c08_priority_least_nested_bounded", "dedupe::sort_by_priority [LeastNested] + FileSubGroup::min_nesting", module="dedupe__c08", t=900,
  cls="bounded", bound="3 sub-groups of one path each, nesting 1 or 2")
k("c08_priority_most_nested_bounded", "dedupe::sort_by_priority [MostNested] + FileSubGroup::max_nesting", module="dedupe__c08", t=900,
  cls="bounded", bound="3 sub-groups of one path each, nesting 1 or 2")
k("c08_priority_top_bottom_bounded", "dedupe::sort_by_priority [Top, Bottom]", module="dedupe__c08", t=600,
  cls="bounded", bound="3 sub-groups of one path each")
TIME_PRIOS = ["newest", "oldest", "most_recently_modified", "least_recently_modified", "most_recently_accessed", "least_recently_accessed"]
for _n in TIME_PRIOS:
    k("c08_priority_%s_bounded" % _n, "dedupe::sort_by_priority [%s] + FileSubGroup::{created, modified, accessed} + util::try_sort_by_key" % _n,
      module="dedupe__c08", t=600, cls="bounded", bound="2 sub-groups of one path each, times 0..2 s")
k("c08_subgroup_times_bounded", "dedupe::FileSubGroup::{created, modified, accessed} + util::{min_result, max_result}", module="dedupe__c08", t=900,
  cls="bounded", bound="one sub-group of 2 paths, times 0..2 s")
k("c08_path_should_keep_bounded", "dedupe::should_keep", module="dedupe__c08b", t=900,
  cls="bounded", bound="<= 2 patterns per option, one two-component path; Pattern matchers arbitrary and independent")
k("c08_path_may_drop_bounded", "dedupe::may_drop", module="dedupe__c08b", t=900,
  cls="bounded", bound="<= 2 patterns per option, one two-component path; Pattern matchers arbitrary and independent")
k("c06_is_prefix_of_compares_components_bounded", "path::Path::is_prefix_of + Path::components", module="path__c06", t=600,
  cls="bounded", bound="paths of one and two components with 1-2 byte names (any bytes but NUL and `/`)")
k("c14_header_totals_bounded", "group::file_count + group::total_size + FileGroup::{file_count, total_size}", module="group", t=600,
  cls="bounded", bound="two groups of 0..3 files, lengths <= 2^40")
k("c14_sort_by_path_no_roots_bounded", "group::FileGroup::sort_by_path [no --isolate roots] + derived Ord of path::Path", module="group", t=600,
  cls="bounded", bound="3 files in one directory, distinct one-byte names, all 6 input orders")
# ---- semaphore.rs
k("c19_release", "semaphore::Semaphore::release", module="semaphore", t=300)
k("c19_guard_roundtrip", "semaphore::Semaphore::access + Drop for SemaphoreGuard", module="semaphore", t=300)
k("c19_owned_guard_roundtrip", "semaphore::Semaphore::access_owned + Drop for OwnedSemaphoreGuard", module="semaphore", t=300)
k("c19_acquire_under_interference_bounded", "semaphore::Semaphore::acquire (counter rewritten at every lock acquisition)", module="semaphore", t=600,
  cls="bounded", bound="at most 2 wake-ups; other threads modelled by havocking the counter whenever the mutex is taken")
k("c19_acquire_after_wakeups_bounded4", "semaphore::Semaphore::acquire (stubbed Condvar::wait)", module="semaphore", t=900, tier="thorough",
  cls="bounded", bound="at most 4 wake-ups")
k("c19_acquire_under_interference_bounded4", "semaphore::Semaphore::acquire (counter rewritten at every lock acquisition)", module="semaphore", t=900,
  tier="thorough", cls="bounded", bound="at most 4 wake-ups")
k("c19_acquire_after_wakeups_bounded", "semaphore::Semaphore::acquire (stubbed Condvar::wait)", module="semaphore", t=300,
  cls="bounded", bound="at most 2 wake-ups of Condvar::wait (the unbounded loop is the Verus unit `semaphore`)")
# ---- transform.rs
k("c07_transform_frame", "transform::Transform::make_args + Input::prepare_input_file + Drop for Input/Output/Transform", module="transform", t=1500)
k("c07_dedupe_script_is_pure_bounded", "dedupe::PartitionedFileGroup::dedupe_script [Move] + are_on_same_mount", module="dedupe__c07b", t=900,
  cls="bounded", bound="one kept and one dropped file, operation `move`")
k("c07_are_on_same_mount_is_pure", "dedupe::PartitionedFileGroup::are_on_same_mount", module="dedupe__c07", t=600)
# ---- hasher.rs
for _o in ("ok", "notfound", "denied", "other"):
    k("c15_hash_file_" + _o, "hasher::FileHasher::hash_file_or_log_err", module="hasher", t=300)
    k("c15_hash_transformed_" + _o, "hasher::FileHasher::hash_transformed_or_log_err", module="hasher", t=300)
k("c12_put_records", "cache::HashCache::put", module="cache", t=900)
k("c12_get_records", "cache::HashCache::get", module="cache", t=900)
k("c12_cache_identity", "hasher::FileHasher::new_cached", module="hasher", t=600)
k("c12_hasher_flow", "hasher::FileHasher::hash_file + load_hash + store_hash + cache::HashCache::key", module="hasher", t=900)

for _w in ("remove", "unsafe_rename", "hardlink", "symlink", "unsafe_copy", "mkdirs", "check_can_rename"):
    k("wrapper_" + _w, "dedupe::FsCommand::%s [body refines its contract over std::fs]" % _w, t=600)
WRAPPERS = ["wrapper_" + _w for _w in ("remove", "unsafe_rename", "hardlink", "symlink", "unsafe_copy", "mkdirs", "check_can_rename")]
# thorough tier (C05): the same units with the real wrapper bodies inlined (ghost file system at the std::fs level only;
# per-call nondeterministic faults, one constant error kind). Measured: 40-380 s each. The four `move` variants (STD_C18) run
# out of memory at 24 GB / time out after 40 min and are NOT used by any property (DESIGN F24b): the modular route - wrapper
# refinement units + callers against the wrapper contracts - decides the same obligations.
for _h, _f in (("c05_safe_remove_std", "safe_remove"), ("c05_execute_remove_std", "execute [Remove]"),
               ("c05_execute_hardlink_std", "execute [HardLink]"), ("c05_execute_softlink_std", "execute [SoftLink]"),
               ("c05_linux_reflink_std", "linux_reflink"), ("c05_execute_reflink_std", "execute [RefLink]"),
               ("c18_execute_move_rename_std", "execute [Move, rename]"), ("c18_execute_move_copy_std", "execute [Move, copy]"),
               ("c18_execute_move_rename_existing_std", "execute [Move, rename, target exists]"),
               ("c18_execute_move_copy_existing_std", "execute [Move, copy, target exists]")):
    k(_h, "dedupe::FsCommand::%s with the real wrapper bodies (std::fs-level ghost file system)" % _f, tier="thorough", t=2400)
STD_C05 = ["c05_safe_remove_std", "c05_execute_remove_std", "c05_execute_hardlink_std", "c05_execute_softlink_std",
           "c05_linux_reflink_std", "c05_execute_reflink_std"]
STD_C18 = ["c18_execute_move_rename_std", "c18_execute_move_copy_std", "c18_execute_move_rename_existing_std",
           "c18_execute_move_copy_existing_std"]

C05_FAMILY = ["c05_safe_remove", "c05_execute_remove", "c05_execute_hardlink", "c05_execute_softlink",
              "c05_linux_reflink", "c05_execute_reflink"]
C18_FAMILY = ["c18_execute_move_rename", "c18_execute_move_copy", "c18_execute_move_rename_existing",
              "c18_execute_move_copy_existing"]
C20_FAMILY = ["c20_lock_first_remove", "c20_lock_first_hardlink", "c20_lock_first_softlink", "c20_lock_first_reflink",
              "c20_lock_first_move"]

GHOST_FS_TRUST = [
    "A1 verifiers: Kani 0.68 / CBMC 6.11 (MIR->goto translation, std models), rustc",
    "A2 ghost file system: the thin wrappers FsCommand::{unsafe_rename, remove, hardlink, symlink, unsafe_copy, mkdirs, "
    "check_can_rename} and reflink::{reflink_overwrite, restore_metadata} are replaced by stubs over 4 directory entries; each call "
    "is atomic (fails without effect or has its POSIX effect; copy may leave a partial target); no other process acts in between",
    "A3 message text: alloc::fmt::format and Path::display are stubbed (empty string); results flow only into errors and log lines",
    "A4 FsCommand::temp_file returns a fresh sibling name X; FsCommand::maybe_lock is stubbed by its contract (Err iff requested and refused)",
    "A8 fabricated fs::Metadata (zeroed, index in first word), std::fs::Metadata::len stubbed to a symbolic length table",
    "recursion bound 1 on drop_glue::<io::Error> (--unwindset), checked by unwinding assertions",
    "A12 instrumentation is add-only and cfg(kani)-guarded (checked by diff on every run)",
]

PROPS = {
    "C05": dict(
        kani=C05_FAMILY + C18_FAMILY + WRAPPERS + STD_C05,
        verus=[],
        prefixes=["C05.", "C02.execute_frame."],
        category="proof",
        trust=GHOST_FS_TRUST,
        design_ref="DESIGN.md §5 C05",
    ),
    "C20": dict(
        kani=C20_FAMILY + ["c20_maybe_lock_granted", "c20_maybe_lock_unsupported", "c20_maybe_lock_refused", "c20_file_lock_new",
                           "c20_maybe_lock_after_unsupported_refused", "c20_maybe_lock_after_refused_granted",
                           "c20_maybe_lock_after_granted_refused"],
        verus=["run_dedupe_dispatch"],
        prefixes=["C20."],
        category="proof",
        trust=GHOST_FS_TRUST,
        design_ref="DESIGN.md §5 C20",
    ),
    "C18": dict(
        kani=C18_FAMILY + ["wrapper_check_can_rename", "wrapper_unsafe_copy", "wrapper_unsafe_rename", "wrapper_remove", "wrapper_mkdirs"],
        verus=["move_target"],
        prefixes=["C18.", "C05.", "C02.execute_frame."],
        category="proof",
        trust=GHOST_FS_TRUST,
        design_ref="DESIGN.md §5 C18",
    ),
    "C02": dict(
        kani=C05_FAMILY + C18_FAMILY + WRAPPERS,
        verus=["partition_tail", "dedupe_script", "partition_filters"],
        prefixes=["C02.", "C05.wrapper."],
        category="proof",
        trust=GHOST_FS_TRUST,
        design_ref="DESIGN.md §5 C02",
    ),
    "C04": dict(
        kani=[],
        verus=["partition_filters", "run_dedupe_defaults", "was_modified_step", "report_timestamp"],
        prefixes=["C04.", "C02.partition_filters.only_regular", "C02.partition_filters.files_of_another_length",
                  "C02.partition_filters.group_skipped", "C02.partition_filters.no_staleness"],
        category="proof",
        trust=["A1 verifiers",
               "dedupe::was_modified (chrono conversions) is an uninterpreted predicate; FileMetadata::is_file/len return the file's current state",
               "that the report's timestamp was taken before `group` started reading (caller history) is NOT covered"],
        design_ref="DESIGN.md §5 C04",
    ),
    "C09": dict(
        kani=[],
        verus=["walk_decisions"],
        prefixes=["C09."],
        category="proof",
        trust=["A1 verifiers", "the walk itself (threads, file system) is NOT covered: only the depth guard, the nesting levels and the link decisions"],
        design_ref="DESIGN.md §5 C09",
    ),
    "C08": dict(
        kani=["c08_subgroup_keep_drop_bounded", "c08_priority_least_nested_bounded", "c08_priority_most_nested_bounded",
              "c08_priority_top_bottom_bounded", "c08_path_should_keep_bounded", "c08_path_may_drop_bounded",
              "c08_subgroup_times_bounded"] + ["c08_priority_%s_bounded" % _n for _n in TIME_PRIOS] + [
              "c06_is_prefix_of_compares_components_bounded"],
        verus=["partition_tail", "subgroup_grouping", "run_dedupe_defaults"],
        prefixes=["C08.", "C02.partition_tail.", "C06.group.", "C06.is_prefix_of."],
        category="proof",
        trust=[],
        design_ref="DESIGN.md §5 C08",
    ),
    "C07": dict(
        kani=["c07_transform_frame", "c07_are_on_same_mount_is_pure", "c07_dedupe_script_is_pure_bounded"],
        verus=["run_dedupe_dispatch"],
        prefixes=["C07.", "C01.transform_tmp."],
        category="proof",
        trust=["A1 verifiers: Kani 0.68 / CBMC 6.11, rustc",
               "std::fs::{copy, remove_file, remove_dir_all} are stubs recording their path arguments (each may fail)",
               "transform::parse_command (nom + regex; Kani cannot compile it) is replaced by its assumed contract: it calls the "
               "substitution closure for any subset/sequence of $IN, $OUT, other variables",
               "Transform::random_tmp_file_name and Transform::output (uuid / hash128 formatting) are stubbed to fixed names under tmp_dir",
               "what the spawned transform program does, read-only open flags, the cache location and log_script/--dry-run are NOT covered",
               "A12 instrumentation is add-only and cfg(kani)-guarded"],
        design_ref="DESIGN.md §5 C07",
    ),
    "C12": dict(
        kani=["c12_hasher_flow", "c12_cache_identity", "c12_put_records", "c12_get_records"],
        verus=["cache_get_guard", "hash_transformed_tail"],
        prefixes=["C12."],
        category="proof",
        trust=["A1 verifiers", "HashCache::get / put are replaced by a one-slot ghost cache (get's validation `if` is the Verus unit cache_get_guard)",
               "file_hash::<H> (thread_local buffer: not compilable by Kani) is replaced by a ghost hash; FileMetadata::new by fabricated metadata",
               "sled/typed_sled map semantics, the millisecond conversion of mtime, tree naming by algorithm/transform are NOT covered"],
        design_ref="DESIGN.md §5 C12",
    ),
    "C15": dict(
        kani=["c15_hash_file_ok", "c15_hash_file_notfound", "c15_hash_file_denied", "c15_hash_file_other",
              "c15_hash_transformed_ok", "c15_hash_transformed_notfound", "c15_hash_transformed_denied", "c15_hash_transformed_other"],
        verus=["scan_loop", "stage_chunks"],
        prefixes=["C15."],
        category="proof",
        trust=["A1 verifiers", "FileHasher::hash_file / hash_transformed are replaced by stubs returning Ok / Err(NotFound) / Err(PermissionDenied) / Err(Other): "
               "only the error mapping of the *_or_log_err wrappers is verified",
               "that all other files are grouped as if the failed one had not been there lives in rehash (threads) - NOT covered",
               "alloc::fmt::format and Path::to_escaped_string stubbed (message text)"],
        design_ref="DESIGN.md §5 C15",
    ),
    "C06": dict(
        kani=["c06_rf_over_contract", "c06_rf_under_contract", "c06_group_filter", "c06_is_prefix_of_compares_components_bounded"],
        verus=["filegroup_counts", "subgroup_grouping"],
        prefixes=["C06."],
        category="proof",
        trust=[],
        design_ref="DESIGN.md §5 C06",
    ),
    "C14": dict(
        kani=["c14_header_totals_bounded", "c14_sort_by_path_no_roots_bounded"],
        verus=["filegroup_counts", "report_header", "subgroup_grouping"],
        prefixes=["C14.", "C06.group."],
        category="proof",
        trust=[],
        design_ref="DESIGN.md §5 C14",
    ),
    "C19": dict(
        kani=["c19_release", "c19_guard_roundtrip", "c19_owned_guard_roundtrip", "c19_acquire_after_wakeups_bounded",
              "c19_acquire_under_interference_bounded", "c19_acquire_after_wakeups_bounded4",
              "c19_acquire_under_interference_bounded4"],
        verus=["semaphore"],
        prefixes=["C19."],
        category="proof",
        trust=[],
        design_ref="DESIGN.md §5 C19",
    ),
    "C01": dict(
        kani=["c07_transform_frame"],
        verus=["stage_chunks", "scan_loop", "hash_transformed_tail"],
        prefixes=["C01.", "C12.hash_transformed."],
        category="proof",
        trust=[],
        design_ref="DESIGN.md §5 C01",
    ),
}


def units_for(prop, tier):
    p = PROPS[prop]
    ks = [h for h in p["kani"] if tier == "thorough" or K[h]["tier"] == "quick"]
    return ks, list(p["verus"])


# Replays of a verifier counterexample on the REAL binary: (unit, obligation prefix, kind, argument)
REAL_REPLAY = [
    ("c20_lock_first_remove", "C20.lock_first.", "lock", "remove"),
    ("c20_lock_first_hardlink", "C20.lock_first.", "lock", "hardlink"),
    ("c20_lock_first_softlink", "C20.lock_first.", "lock", "softlink"),
    ("c20_lock_first_reflink", "C20.lock_first.", "lock", "reflink"),
    ("c20_lock_first_move", "C20.lock_first.", "lock", "move"),
    ("c20_file_lock_new", "C20.file_lock.", "lock_shared", "remove"),
    ("walk_decisions", "C09.depth.", "depth", None),
    ("report_timestamp", "C04.report.", "report_timestamp", None),
    ("c05_safe_remove", "C0", "faults", ("hardlink", False)),
    ("c05_execute_remove", "C0", "faults", ("remove", False)),
    ("c05_execute_hardlink", "C0", "faults", ("hardlink", False)),
    ("c05_execute_softlink", "C0", "faults", ("softlink", False)),
    ("c05_execute_reflink", "C0", "faults", ("reflink", False)),
    ("c05_linux_reflink", "C0", "faults", ("reflink", False)),
    ("c18_execute_move_rename", "C", "faults", ("move", False)),
    ("c18_execute_move_copy", "C", "faults", ("move", False)),
    ("c18_execute_move_rename_existing", "C", "faults", ("move", True)),
    ("c18_execute_move_copy_existing", "C", "faults", ("move", True)),
    ("wrapper_unsafe_copy", "C05.wrapper.", "faults", ("move", False)),
    ("c06_rf_over_contract", "C06.rf_over.contract", "transform_filter", None),
    ("c07_transform_frame", "C07.transform_frame.", "transform_frame", None),
    ("filegroup_counts", "C06.final_filter.group_transformed", "transform_filter", None),
]


def real_replay_for(unit, obligation):
    unit = unit[:-4] if unit.endswith("_std") else unit
    for u, pre, kind, arg in REAL_REPLAY:
        if u == unit and obligation.startswith(pre):
            return kind, arg
    return None
