"""Replays of verifier counterexamples against the REAL fclones binary built from /repo's working tree.

 * lock replay (C20): a foreign process holds an fcntl lock on the redundant file while `fclones <op>` runs.
 * fault replay (C05/C18): `strace -e inject=<syscall>:error=EIO:when=<k>` around `fclones <op>`; the tree inventory
   afterwards is compared with the crash-point invariant of the contract.
A replay that reproduces the violation makes the VIOLATION line a confirmed one; otherwise the line ends with
`no-failing-input-found`.
"""
import hashlib
import os
import shutil
import subprocess
import sys
import time

from . import common

OPS = {
    "remove": ["remove"],
    "hardlink": ["link"],
    "softlink": ["link", "--soft"],
    "reflink": ["dedupe"],
    "move": ["move"],
}


def build_binary():
    """Builds the real binary from /repo's working tree (target dir under /verif/.cache, never in /repo)."""
    # /repo itself has a persistent warm target dir; a scratch copy of the repository (bin/try_patch) gets its own inside
    # the copy (sharing one target dir between two source paths leaves a stale uplifted binary behind)
    if os.path.realpath(common.REPO) == "/repo":
        tgt = os.path.join(common.CACHE, "real-target")
    else:
        tgt = os.path.join(common.REPO, "target-verif-replay")
    os.makedirs(tgt, exist_ok=True)
    rc, out, secs = common.run(["cargo", "build", "--offline", "-p", "fclones"], cwd=common.REPO,
                               env={"CARGO_TARGET_DIR": tgt}, timeout=1800)
    exe = os.path.join(tgt, "debug", "fclones")
    if rc != 0 or not os.path.exists(exe):
        return None, out[-2000:]
    return exe, "built in %.0fs" % secs


def sha(path):
    try:
        if os.path.islink(path):
            return "symlink->" + os.readlink(path)
        with open(path, "rb") as f:
            return hashlib.sha256(f.read()).hexdigest()[:16]
    except OSError as e:
        return "absent(%s)" % e.errno


def inventory(root):
    inv = {}
    for dp, dn, fn in os.walk(root):
        for f in fn:
            p = os.path.join(dp, f)
            st = os.lstat(p)
            inv[os.path.relpath(p, root)] = (st.st_ino, sha(p))
    return inv


def make_scenario(tag):
    d = common.mkscratch("replay-" + tag)
    os.makedirs(os.path.join(d, "tree", "a"))
    os.makedirs(os.path.join(d, "tree", "b"))
    data = (b"fclones-verif-replay-" * 400)
    for sub in ("a", "b"):
        with open(os.path.join(d, "tree", sub, "x"), "wb") as f:
            f.write(data)
    return d


LOCKER = r'''
import fcntl, sys, time
f = open(sys.argv[1], "r+b")
fcntl.lockf(f, (fcntl.LOCK_SH if len(sys.argv) > 2 and sys.argv[2] == "shared" else fcntl.LOCK_EX) | fcntl.LOCK_NB)
print("locked", flush=True)
time.sleep(600)
'''


def replay_lock(op, shared=False):
    """Returns dict(reproduced: bool|None, log: str). `shared`: the foreign process holds a shared (read) lock."""
    exe, msg = build_binary()
    if not exe:
        return dict(reproduced=None, log="could not build the real binary: " + msg)
    d = make_scenario("lock-" + op)
    tree = os.path.join(d, "tree")
    report = os.path.join(d, "report.txt")
    rc, out, _ = common.run([exe, "group", tree, "-o", report], cwd=d, timeout=120)
    if rc != 0:
        return dict(reproduced=None, log="group failed: " + out[-500:])
    victim = os.path.join(tree, "b", "x")
    before = inventory(tree)
    locker = subprocess.Popen([sys.executable, "-c", LOCKER, victim] + (["shared"] if shared else []), stdout=subprocess.PIPE, text=True)
    try:
        line = locker.stdout.readline()
        if "locked" not in line:
            return dict(reproduced=None, log="could not take the foreign lock")
        args = [exe] + OPS[op]
        if op == "move":
            args.append(os.path.join(d, "target"))
        with open(report) as rin:
            p = subprocess.run(args, stdin=rin, cwd=d, stdout=subprocess.PIPE, stderr=subprocess.STDOUT, text=True, timeout=120)
        after = inventory(tree)
    finally:
        locker.kill()
    touched = before.get("b/x") != after.get("b/x")
    log = "cmd: %s < report\nrc=%s\n%s\nbefore=%s\nafter=%s\nmoved=%s" % (
        " ".join(args), p.returncode, p.stdout[-1500:], before, after,
        inventory(os.path.join(d, "target")) if os.path.isdir(os.path.join(d, "target")) else {})
    return dict(reproduced=bool(touched), log=log,
                what="the file b/x, on which another process holds %s fcntl lock, was %s by `fclones %s`" %
                     ("a shared" if shared else "an exclusive", "changed/removed" if touched else "left alone", " ".join(OPS[op])))


def replay_transform_filter():
    """C06 on the real binary: `group --transform cat` must report a class iff the replication filter holds."""
    exe, msg = build_binary()
    if not exe:
        return dict(reproduced=None, log="could not build the real binary: " + msg)
    d = common.mkscratch("replay-c06")
    tree = os.path.join(d, "tree")
    os.makedirs(tree)
    for name, data in (("a", b"aaa\n"), ("b", b"bbb\n"), ("c", b"aaa\n")):
        with open(os.path.join(tree, name), "wb") as f:
            f.write(data)
    logs = []
    bad = []
    for extra, ok_size in (([], lambda n: n > 1), (["--unique"], lambda n: n < 2)):
        for transform in ([], ["--transform", "cat"]):
            args = [exe, "group", tree, "-f", "json"] + extra + transform
            p = subprocess.run(args, cwd=d, stdout=subprocess.PIPE, stderr=subprocess.DEVNULL, text=True, timeout=120)
            try:
                import json as _json
                groups = _json.loads(p.stdout).get("groups", [])
                sizes = [len(g["files"]) for g in groups]
            except Exception as e:
                logs.append("%s: unparsable output (%s)" % (" ".join(args[1:]), e))
                continue
            logs.append("%s -> group sizes %s" % (" ".join(args[1:]), sizes))
            for n in sizes:
                if not ok_size(n):
                    bad.append("%s reports a class of %d file(s)" % (" ".join(args[1:]), n))
    return dict(reproduced=bool(bad), log="\n".join(logs), what="; ".join(bad) or "every reported class satisfies the filter")


def replay_depth():
    """C09 on the real binary: `group DIR --depth k` must read DIR's entries for k >= 1 but enter its sub-directories
    only for k >= 2 (config.rs: "1 descends into directories specified explicitly as input paths, but does not descend
    into subdirectories"; README: "--depth 1  # scan only files in the current dir, skip subdirs")."""
    exe, msg = build_binary()
    if not exe:
        return dict(reproduced=None, log="could not build the real binary: " + msg)
    d = common.mkscratch("replay-c09")
    tree = os.path.join(d, "r")
    os.makedirs(os.path.join(tree, "sub", "deeper"))
    for rel, data in (("a", b"x\n"), ("b", b"x\n"), ("sub/c", b"yy\n"), ("sub/d", b"yy\n"),
                      ("sub/deeper/e", b"zzz\n"), ("sub/deeper/f", b"zzz\n")):
        with open(os.path.join(tree, rel), "wb") as f:
            f.write(data)
    logs, bad = [], []
    # level of a file = number of directories between the input path and the file (a, b: 1; sub/c: 2; sub/deeper/e: 3)
    for k in (1, 2, 3):
        p = subprocess.run([exe, "group", tree, "--depth", str(k)], cwd=d, stdout=subprocess.PIPE, stderr=subprocess.DEVNULL,
                           text=True, timeout=120)
        listed = sorted(os.path.relpath(l.strip(), tree) for l in p.stdout.splitlines() if l.startswith("    "))
        logs.append("group r --depth %d -> %s" % (k, listed))
        for rel in listed:
            if rel.count("/") + 1 > k:
                bad.append("--depth %d lists %s (a file %d directories below the input path)" % (k, rel, rel.count("/") + 1))
        for rel in ("a", "sub/c", "sub/deeper/e"):
            if rel.count("/") + 1 <= k and rel not in listed:
                bad.append("--depth %d misses %s" % (k, rel))
    return dict(reproduced=bool(bad), log="\n".join(logs), what="; ".join(bad) or "every listed file is within the depth limit")


def replay_report_timestamp():
    """C04 on the real binary: a member of a group is rewritten (same length, new content, current mtime) WHILE `group` is
    still running, after the file has been read; the dedupe command acting on the report must skip the group or leave
    the changed file alone. A slow `--transform` program (cat, then sleep) keeps `group` running after the files were
    read; every wait below is bounded."""
    import time
    exe, msg = build_binary()
    if not exe:
        return dict(reproduced=None, log="could not build the real binary: " + msg)
    d = common.mkscratch("replay-c04")
    tree, bindir, marks = (os.path.join(d, x) for x in ("t", "bin", "marks"))
    for x in (tree, bindir, marks):
        os.makedirs(x)
    for name in ("a", "b"):
        with open(os.path.join(tree, name), "wb") as f:
            f.write(b"AAAA\n")
    prog = os.path.join(bindir, "slowcat")
    with open(prog, "w") as f:
        f.write("#!/bin/sh\ncat\ntouch %s/$$\nsleep 2\n" % marks)
    os.chmod(prog, 0o755)
    env = dict(os.environ, PATH=bindir + os.pathsep + os.environ.get("PATH", ""))
    report = os.path.join(d, "report.txt")
    logs = []
    with open(report, "wb") as out:
        g = subprocess.Popen([exe, "group", "t", "--transform", "slowcat"], cwd=d, env=env, stdout=out, stderr=subprocess.DEVNULL)
        t0 = time.time()
        while len(os.listdir(marks)) < 2 and time.time() - t0 < 30 and g.poll() is None:
            time.sleep(0.05)
        both_read = len(os.listdir(marks)) >= 2
        with open(os.path.join(tree, "b"), "wb") as f:      # an ordinary write: same length, new content, mtime = now
            f.write(b"BBBB\n")
        changed_at = time.time()
        try:
            g.wait(timeout=60)
        except subprocess.TimeoutExpired:
            g.kill()
            return dict(reproduced=None, log="`group` did not finish within 60 s")
    if not both_read:
        return dict(reproduced=None, log="could not place the write after both files had been read")
    head = [l for l in open(report, errors="replace").read().splitlines() if l.startswith("# Timestamp")]
    logs.append("b rewritten %.2f s after `group` started (both files already read); report header: %s" % (changed_at - t0, head))
    p = subprocess.run([exe, "remove"], cwd=d, env=env, stdin=open(report, "rb"), stdout=subprocess.PIPE, stderr=subprocess.STDOUT,
                       text=True, timeout=60)
    logs.append("remove < report: " + " | ".join(p.stdout.strip().splitlines()[-2:]))
    left = {n: open(os.path.join(tree, n), "rb").read() for n in sorted(os.listdir(tree))}
    logs.append("tree afterwards: %s" % {k: v.decode() for k, v in left.items()})
    lost = b"BBBB\n" not in left.values()
    return dict(reproduced=lost, log="\n".join(logs),
                what=("the content written to t/b while `group` was running is gone: `remove` deleted t/b" if lost
                      else "the changed file was left alone"))


def replay_transform_frame():
    """C07 on the real binary: `group --transform ...` in every I/O mode must leave the scanned tree as it was."""
    exe, msg = build_binary()
    if not exe:
        return dict(reproduced=None, log="could not build the real binary: " + msg)
    logs, bad = [], []
    modes = [["--transform", "cat"], ["--transform", "cat $IN"], ["--transform", "cat $IN", "--no-copy"],
             ["--transform", "cp $IN $OUT"], ["--transform", "cp $IN $OUT", "--no-copy"],
             ["--transform", "true $IN", "--in-place"], ["--transform", "true $IN", "--in-place", "--no-copy"]]
    for k, mode in enumerate(modes):
        d = common.mkscratch("replay-c07-%d" % k)
        tree = os.path.join(d, "tree")
        os.makedirs(tree)
        for name, data in (("a", b"aaa\n"), ("b", b"bbb\n"), ("c", b"aaa\n")):
            with open(os.path.join(tree, name), "wb") as f:
                f.write(data)
        before = inventory(tree)
        p = subprocess.run([exe, "group", tree] + mode, cwd=d, stdout=subprocess.PIPE, stderr=subprocess.STDOUT, text=True, timeout=120)
        after = inventory(tree)
        same = before == after
        logs.append("group tree %s -> rc=%s tree %s" % (" ".join(repr(m) for m in mode), p.returncode, "unchanged" if same else "CHANGED: before=%s after=%s" % (before, after)))
        if not same:
            bad.append("group %s changed the scanned tree (%d of %d files left)" % (" ".join(mode), len(after), len(before)))
    return dict(reproduced=bool(bad), log="\n".join(logs), what="; ".join(bad) or "the scanned tree is unchanged in every transform mode")


# ---------------------------------------------------------------------------------------------------------
# Fault replay (C05 / C18 / C02 frame): the verifier's counterexample is a fault tape (which file-system steps fail).
# Its class is replayed on the real binary by injecting errors with strace at every position of every mutating system
# call the command issues, singly and in pairs, and checking the property's invariant on the resulting tree.

FAULT_SYSCALLS = ["rename", "linkat", "symlink", "unlink", "mkdir", "copy_file_range", "ioctl"]


def _fault_scenario(tag, op, preexisting=False):
    d = make_scenario(tag)
    tree = os.path.join(d, "tree")
    if op == "move" and preexisting:
        tgt = os.path.join(d, "target") + os.path.join(tree, "b", "x")
        os.makedirs(os.path.dirname(tgt), exist_ok=True)
        with open(tgt, "wb") as f:
            f.write(b"pre-existing foreign file\n")
    return d, tree


def _check_tree(op, d, tree, before, preexisting):
    """Returns a list of invariant violations (strings) for the tree left by one faulted run."""
    bad = []
    after = inventory(tree)
    a0, b0 = before["a/x"], before["b/x"]
    if after.get("a/x") != a0:
        bad.append("retained file a/x was changed: %s -> %s" % (a0, after.get("a/x")))
    orig = b0[1]
    places = [v for k, v in after.items() if k == "b/x" or k.startswith("b/x.")]
    tgt_root = os.path.join(d, "target")
    moved = inventory(tgt_root) if os.path.isdir(tgt_root) else {}
    b_now = after.get("b/x")
    ok_b = any(v[1] == orig for v in places)  # original bytes at the path or under the temporary sibling name
    if b_now is not None and (b_now[0] == a0[0] or str(b_now[1]).startswith("symlink->")):
        ok_b = True  # replaced by a hard link / symlink to the retained file
    if op == "remove":
        ok_b = True  # removing b/x is the operation itself
    if op == "move" and any(v[1] == orig for v in moved.values()):
        ok_b = True  # complete bytes under the target directory
    if not ok_b:
        bad.append("bytes of b/x are nowhere: tree=%s target=%s" % (after, moved))
    if op == "move" and preexisting:
        pre = [v for k, v in moved.items() if v[1] == sha_bytes(b"pre-existing foreign file\n")]
        if not pre:
            bad.append("the pre-existing file under the move target was altered: %s" % moved)
    return bad


def sha_bytes(b):
    return hashlib.sha256(b).hexdigest()[:16]


def replay_faults(op, preexisting=False, max_runs=260):
    exe, msg = build_binary()
    if not exe:
        return dict(reproduced=None, log="could not build the real binary: " + msg)
    if shutil.which("strace") is None:
        return dict(reproduced=None, log="strace not available")
    schedules = [()]
    singles = [(s, k) for s in FAULT_SYSCALLS for k in (1, 2, 3)]
    schedules += [(x,) for x in singles]
    schedules += [(singles[i], singles[j]) for i in range(len(singles)) for j in range(i + 1, len(singles))]
    logs, bad_all, runs = [], [], 0
    for sched in schedules:
        if runs >= max_runs:
            break
        runs += 1
        d, tree = _fault_scenario("fault-%s" % op, op, preexisting)
        report = os.path.join(d, "report.txt")
        rc, out, _ = common.run([exe, "group", tree, "-o", report], cwd=d, timeout=120)
        before = inventory(tree)
        args = ["strace", "-f", "-o", "/dev/null", "-e", "trace=" + ",".join(FAULT_SYSCALLS)]  # injection needs the calls traced
        for s, k in sched:
            # restrict the injection to the command's own mutating calls on the scenario files
            args += ["-e", "inject=%s:error=EIO:when=%d" % (s, k)]
        args += [exe] + OPS[op]
        if op == "move":
            args.append(os.path.join(d, "target"))
        with open(report) as rin:
            p = subprocess.run(args, stdin=rin, cwd=d, stdout=subprocess.PIPE, stderr=subprocess.STDOUT, text=True, timeout=120)
        bad = _check_tree(op, d, tree, before, preexisting)
        if bad:
            bad_all.append("schedule %s: %s | output: %s" % (list(sched), "; ".join(bad), p.stdout[-300:].replace("\n", " / ")))
        shutil.rmtree(d, ignore_errors=True)
        if len(bad_all) >= 3:
            break
    return dict(reproduced=bool(bad_all), runs=runs, log="\n".join(bad_all) or "no schedule of %d violated the invariant" % runs,
                what=("`fclones %s` under injected system-call failures left the tree in a state the property forbids: %s" %
                      (" ".join(OPS[op]), bad_all[0][:300])) if bad_all else "no injected fault schedule violated the invariant on the real binary")
