//! verif child module of crate::config — C06.group_filter: how the command-line options become the replication
//! filter. Post-conditions come from the property statement: a class is reported iff its replica count is greater
//! than --rf-over (default 1), or smaller than --rf-under (--unique = 2); hard links count once unless
//! --match-links; roots are used only with --isolate.
use super::*;

fn symbolic_config() -> GroupConfig {
    GroupConfig {
        rf_over: kani::any(),
        rf_under: kani::any(),
        unique: kani::any(),
        match_links: kani::any(),
        isolate: false,
        transform: if kani::any() { Some(String::new()) } else { None },
        ..GroupConfig::default()
    }
}

#[kani::proof_for_contract(GroupConfig::rf_over)]
fn c06_rf_over_contract() {
    let c = symbolic_config();
    let _ = c.rf_over();
    std::mem::forget(c);
}

#[kani::proof_for_contract(GroupConfig::rf_under)]
fn c06_rf_under_contract() {
    let c = symbolic_config();
    let _ = c.rf_under();
    std::mem::forget(c);
}

/// group_filter is checked against the CONTRACT of rf_over (stub_verified), not its body.
#[kani::proof]
#[kani::stub_verified(GroupConfig::rf_over)]
#[kani::unwind(4)]
fn c06_group_filter() {
    let c = symbolic_config();
    let f = c.group_filter();
    match f.replication {
        Underreplicated(k) => {
            assert!(c.unique || c.rf_under.is_some(), "C06.group_filter.under_only_when_requested");
            assert!(k == if c.unique { 2 } else { c.rf_under.unwrap() }, "C06.group_filter.rf_under_value");
        }
        Overreplicated(k) => {
            assert!(!c.unique && c.rf_under.is_none(), "C06.group_filter.over_only_for_duplicate_search");
            assert!(k == c.rf_over.unwrap_or(1), "C06.group_filter.rf_over_value_default_1");
        }
    }
    assert!(f.group_by_id == !c.match_links, "C06.group_filter.hard_links_count_once_unless_match_links");
    assert!(f.root_paths.is_empty(), "C06.group_filter.no_roots_without_isolate");
    kani::cover!(c.transform.is_some() && !c.unique && c.rf_under.is_none(), "cover.transform_duplicate_search");
    kani::cover!(c.unique, "cover.unique");
    std::mem::forget(f);
    std::mem::forget(c);
}
