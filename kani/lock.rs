//! verif child module of crate::lock — C20: what FileLock::new asks the operating system for. The file is opened for
//! writing without creating it, and an exclusive (F_WRLCK), non-blocking (F_SETLK) advisory lock on the whole file
//! is requested: only that request is refused whenever ANOTHER process holds any conflicting fcntl lock (shared or
//! exclusive). `nix::fcntl::fcntl` and `OpenOptions` are recording stubs.
#![allow(static_mut_refs)]
use super::*;
use crate::path::verif_path::p1;
use std::fs::OpenOptions;

static mut OPT_READ: bool = false;
static mut OPT_WRITE: bool = false;
static mut OPT_CREATE: bool = false;
static mut OPEN_CALLS: u32 = 0;
static mut OPEN_FAILS: bool = false;
static mut LOCK_REQUESTS: u32 = 0;
static mut REQUESTED_EXCLUSIVE: bool = false;
static mut REQUESTED_NONBLOCKING: bool = false;
static mut WHOLE_FILE: bool = false;
static mut UNLOCKS: u32 = 0;
static mut FCNTL_FAILS: bool = false;

fn stub_oo_read(o: &mut OpenOptions, v: bool) -> &mut OpenOptions {
    unsafe { OPT_READ = v };
    o
}
fn stub_oo_write(o: &mut OpenOptions, v: bool) -> &mut OpenOptions {
    unsafe { OPT_WRITE = v };
    o
}
fn stub_oo_create(o: &mut OpenOptions, v: bool) -> &mut OpenOptions {
    unsafe { OPT_CREATE = v };
    o
}
fn stub_oo_open<P: AsRef<std::path::Path>>(_o: &OpenOptions, _p: P) -> io::Result<File> {
    use std::os::unix::io::FromRawFd;
    unsafe {
        OPEN_CALLS += 1;
        if OPEN_FAILS {
            return Err(io::Error::from(io::ErrorKind::PermissionDenied));
        }
        Ok(File::from_raw_fd(3))
    }
}

fn stub_fcntl(_fd: std::os::unix::io::RawFd, arg: nix::fcntl::FcntlArg) -> nix::Result<libc::c_int> {
    unsafe {
        match arg {
            nix::fcntl::FcntlArg::F_SETLK(f) => {
                if f.l_type == libc::F_UNLCK as i16 {
                    UNLOCKS += 1;
                    return Ok(0);
                }
                LOCK_REQUESTS += 1;
                REQUESTED_NONBLOCKING = true;
                REQUESTED_EXCLUSIVE = f.l_type == libc::F_WRLCK as i16;
                WHOLE_FILE = f.l_whence == libc::SEEK_SET as i16 && f.l_start == 0 && f.l_len == 0;
            }
            nix::fcntl::FcntlArg::F_SETLKW(f) => {
                LOCK_REQUESTS += 1;
                REQUESTED_NONBLOCKING = false;
                REQUESTED_EXCLUSIVE = f.l_type == libc::F_WRLCK as i16;
            }
            _ => {}
        }
        if FCNTL_FAILS {
            Err(nix::errno::Errno::EAGAIN)
        } else {
            Ok(0)
        }
    }
}

fn stub_format(_args: std::fmt::Arguments<'_>) -> String {
    String::new()
}
fn stub_display(_p: &Path) -> String {
    String::new()
}

#[kani::proof]
#[kani::stub(alloc::fmt::format, stub_format)]
#[kani::stub(crate::path::Path::display, stub_display)]
#[kani::stub(std::fs::OpenOptions::read, stub_oo_read)]
#[kani::stub(std::fs::OpenOptions::write, stub_oo_write)]
#[kani::stub(std::fs::OpenOptions::create, stub_oo_create)]
#[kani::stub(std::fs::OpenOptions::open, stub_oo_open)]
#[kani::stub(nix::fcntl::fcntl, stub_fcntl)]
#[kani::unwind(8)]
fn c20_file_lock_new() {
    unsafe {
        OPEN_FAILS = kani::any();
        FCNTL_FAILS = kani::any();
        OPT_READ = false;
        OPT_WRITE = false;
        OPT_CREATE = false;
        OPEN_CALLS = 0;
        LOCK_REQUESTS = 0;
        UNLOCKS = 0;
    }
    let path = p1(b"L");
    let r = FileLock::new(&path);
    let ok = r.is_ok();
    std::mem::forget(r); // the lock is still held (not dropped) when the obligations are checked
    unsafe {
        assert!(OPEN_CALLS >= 1, "C20.file_lock.opens_the_file");
        assert!(OPT_WRITE && !OPT_CREATE, "C20.file_lock.opens_for_writing_without_creating");
        if !OPEN_FAILS {
            assert!(LOCK_REQUESTS >= 1, "C20.file_lock.requests_the_lock");
            assert!(REQUESTED_EXCLUSIVE, "C20.file_lock.requests_an_exclusive_lock_that_conflicts_with_any_foreign_lock");
            assert!(REQUESTED_NONBLOCKING, "C20.file_lock.does_not_wait_for_the_foreign_process");
            assert!(WHOLE_FILE, "C20.file_lock.locks_the_whole_file");
        }
        assert!(ok == (!OPEN_FAILS && !FCNTL_FAILS), "C20.file_lock.refused_open_or_lock_is_an_error");
        assert!(UNLOCKS == 0 || !ok, "C20.file_lock.lock_held_while_the_guard_lives");
        kani::cover!(ok, "cover.locked");
        kani::cover!(!ok && !OPEN_FAILS, "cover.lock_refused");
    }
}

