//! verif child module of crate::dedupe — C20: the contract of FsCommand::maybe_lock that the `execute` units assume
//! (stub_maybe_lock): Err iff locking was requested and the lock was refused; --no-lock never touches the file.
#![allow(static_mut_refs)]
use super::*;
use crate::path::verif_path::p1;

static mut NEW_CALLS: u32 = 0;
static mut NEW_OUTCOME: u8 = 0; // 0 = lock granted, 1 = locking unsupported on this file system, 2 = refused / other error

fn stub_file_lock_new(_path: &Path) -> io::Result<FileLock> {
    use std::os::unix::io::FromRawFd;
    unsafe {
        NEW_CALLS += 1;
        match NEW_OUTCOME {
            0 => Ok(FileLock { file: std::fs::File::from_raw_fd(3) }),
            1 => Err(io::Error::from(ErrorKind::Unsupported)),
            _ => Err(io::Error::from(ErrorKind::WouldBlock)),
        }
    }
}

macro_rules! maybe_lock_unit {
    ($name:ident, $outcome:expr) => {
        #[kani::proof]
        #[kani::stub(crate::lock::FileLock::new, stub_file_lock_new)]
        #[kani::unwind(6)]
        fn $name() {
            let lock: bool = kani::any();
            unsafe {
                NEW_CALLS = 0;
                NEW_OUTCOME = $outcome;
            }
            let path = p1(b"L");
            let r = FsCommand::maybe_lock(&path, lock);
            let (is_ok, is_some) = match &r {
                Ok(Some(_)) => (true, true),
                Ok(None) => (true, false),
                Err(_) => (false, false),
            };
            std::mem::forget(r);
            unsafe {
                assert!(NEW_CALLS == if lock { 1 } else { 0 }, "C20.maybe_lock.locks_iff_requested");
                if !lock {
                    assert!(is_ok && !is_some, "C20.maybe_lock.no_lock_flag_never_fails");
                } else if NEW_OUTCOME == 0 {
                    assert!(is_ok && is_some, "C20.maybe_lock.granted_lock_is_returned_to_the_caller");
                } else if NEW_OUTCOME == 1 {
                    assert!(is_ok && !is_some, "C20.maybe_lock.unsupported_locking_is_not_an_error");
                } else {
                    assert!(!is_ok, "C20.maybe_lock.refused_lock_is_an_error");
                }
                kani::cover!(lock, "cover.requested");
                kani::cover!(!lock, "cover.not_requested");
            }
        }
    };
}
maybe_lock_unit!(c20_maybe_lock_granted, 0);
maybe_lock_unit!(c20_maybe_lock_unsupported, 1);
maybe_lock_unit!(c20_maybe_lock_refused, 2);

/// maybe_lock has no memory: its contract holds for the second file whatever happened with the first one
/// (e.g. a file system that does not support locking must not switch locking off for the files that follow).
static mut OUTCOMES: [u8; 2] = [0; 2];

fn stub_file_lock_new_seq(_path: &Path) -> io::Result<FileLock> {
    use std::os::unix::io::FromRawFd;
    unsafe {
        let k = if NEW_CALLS == 0 { OUTCOMES[0] } else { OUTCOMES[1] };
        NEW_CALLS += 1;
        match k {
            0 => Ok(FileLock { file: std::fs::File::from_raw_fd(3) }),
            1 => Err(io::Error::from(ErrorKind::Unsupported)),
            _ => Err(io::Error::from(ErrorKind::WouldBlock)),
        }
    }
}

macro_rules! maybe_lock_seq_unit {
    ($name:ident, $first:expr, $second:expr) => {
        #[kani::proof]
        #[kani::stub(crate::lock::FileLock::new, stub_file_lock_new_seq)]
        #[kani::unwind(6)]
        fn $name() {
            unsafe {
                NEW_CALLS = 0;
                OUTCOMES = [$first, $second];
            }
            let r1 = FsCommand::maybe_lock(&p1(b"K"), true);
            std::mem::forget(r1);
            let r2 = FsCommand::maybe_lock(&p1(b"L"), true);
            let ok2 = r2.is_ok();
            std::mem::forget(r2);
            unsafe {
                assert!(NEW_CALLS == 2, "C20.maybe_lock.every_file_is_locked_whatever_happened_before");
                assert!(ok2 == ($second != 2), "C20.maybe_lock.refused_lock_is_an_error_whatever_happened_before");
            }
            kani::cover!(true, "cover.reached");
        }
    };
}
maybe_lock_seq_unit!(c20_maybe_lock_after_unsupported_refused, 1, 2);
maybe_lock_seq_unit!(c20_maybe_lock_after_refused_granted, 2, 0);
maybe_lock_seq_unit!(c20_maybe_lock_after_granted_refused, 0, 2);
