//! verif child module of crate::dedupe — C07 (--dry-run never modifies anything): the whole planning step
//! `dedupe_script`, as the dedupe commands call it also under --dry-run, performs no file-system operation.
#![allow(static_mut_refs)]
use super::*;
use crate::dedupe::verif_dedupe::{ghost_fs_unit, init, DIRS_MADE, INV_NONE, MUTATIONS, UNCONTRACTED_FS_CALL};
use crate::path::verif_path::{p1, p2};

static mut SAME: bool = false;

fn stub_get_mount_point(_d: &DiskDevices, path: &Path) -> &'static Path {
    let first = crate::path::verif_path::tag(path) == b'M';
    let name: &[u8] = if unsafe { SAME } || first { b"m1" } else { b"m2" };
    Box::leak(Box::new(p1(name)))
}

fn stub_move_target(_target_dir: &Arc<Path>, _source_path: &Path) -> Path {
    p2(b"D", b"M")
}

/// The whole planning step as the dedupe commands call it (also under --dry-run): building the command list for a
/// group performs no file-system operation. Bounded stand-in: one kept and one dropped file.
ghost_fs_unit!(wrappers, c07_dedupe_script_is_pure_bounded,
    [(crate::device::DiskDevices::get_mount_point, stub_get_mount_point),
     (crate::dedupe::PartitionedFileGroup::move_target, stub_move_target)], {
    init(INV_NONE, true, false);
    unsafe { crate::dedupe::verif_dedupe::PLANNING = true };
    unsafe { SAME = kani::any() };
    let devices: std::mem::ManuallyDrop<DiskDevices> =
        std::mem::ManuallyDrop::new(unsafe { std::mem::MaybeUninit::<DiskDevices>::zeroed().assume_init() });
    let group = PartitionedFileGroup {
        to_keep: vec![crate::dedupe::verif_dedupe::pm(b"T", 0)],
        to_drop: vec![crate::dedupe::verif_dedupe::pm(b"L", 1)],
    };
    let op = DedupeOp::Move(Arc::new(p1(b"D")));
    let script = group.dedupe_script(&op, &devices);
    let n = script.len();
    std::mem::forget(script);
    std::mem::forget(op);
    unsafe {
        assert!(MUTATIONS == 0 && !DIRS_MADE, "C07.planning.dedupe_script_changes_nothing");
        assert!(!UNCONTRACTED_FS_CALL, "C07.planning.dedupe_script_opens_or_creates_nothing");
        assert!(n == 1, "C07.planning.one_command_for_the_dropped_file");
        kani::cover!(true, "cover.reached");
    }
});
