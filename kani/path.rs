//! verif child module of crate::path — constructors for harness paths (private fields of `Path`).
//! Injected only under cfg(kani); see /verif/DESIGN.md §3.1.
use super::*;

/// One-component path `name` (relative).
pub(crate) fn p1(name: &[u8]) -> Path {
    Path { parent: None, component: CString::new(name).unwrap() }
}

/// Two-component path `dir/name` (relative).
pub(crate) fn p2(dir: &[u8], name: &[u8]) -> Path {
    Path { parent: Some(Arc::new(p1(dir))), component: CString::new(name).unwrap() }
}

/// First byte of the last component (ghost file-system slot tag).
pub(crate) fn tag(p: &Path) -> u8 {
    p.component.as_bytes()[0]
}

/// First byte of the first component.
pub(crate) fn root_tag(p: &Path) -> u8 {
    match &p.parent {
        Some(q) => root_tag(q),
        None => p.component.as_bytes()[0],
    }
}

pub(crate) fn depth(p: &Path) -> usize {
    match &p.parent {
        Some(q) => 1 + depth(q),
        None => 1,
    }
}

/// Length in bytes of the last component.
pub(crate) fn last_len(p: &Path) -> usize {
    p.component.as_bytes().len()
}
