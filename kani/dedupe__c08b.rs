//! verif child module of crate::dedupe — C08: the path-level pattern tests `should_keep` / `may_drop` (bounded stand-in).
//! The four `Pattern` matchers are stubs with INDEPENDENT arbitrary results per pattern (their assumed contracts: the
//! anchored match of a name / of a whole path, the prefix match, the partial match are different relations), so the
//! obligations pin down WHICH relation each option is tested with.
#![allow(static_mut_refs)]
use super::*;
use crate::path::verif_path::p2;
use crate::pattern::Pattern;

const MAXP: usize = 2; // patterns per option

// the four pattern lists of DedupeConfig, in this order: --keep-name, --keep-path, --name, --path
static mut BASE: [usize; 4] = [0; 4];
static mut LEN: [usize; 4] = [0; 4];
// arbitrary results of the matchers per (list, pattern)
static mut M_NAME: [[bool; MAXP]; 4] = [[false; MAXP]; 4]; // Pattern::matches(file name): anchored match of the name
static mut M_PATH: [[bool; MAXP]; 4] = [[false; MAXP]; 4]; // Pattern::matches_path(path): anchored match of the whole path
static mut M_PREFIX: [[bool; MAXP]; 4] = [[false; MAXP]; 4]; // Pattern::matches_prefix
static mut M_PARTIAL: [[bool; MAXP]; 4] = [[false; MAXP]; 4]; // Pattern::matches_partially
static mut NAME_ARG_OK: bool = true; // `matches` was only ever given the file name
static mut PATH_ARG_OK: bool = true; // `matches_path` was only ever given the whole path

fn locate(p: &Pattern) -> (usize, usize) {
    let a = p as *const Pattern as usize;
    let sz = std::mem::size_of::<Pattern>();
    let mut l = 0;
    while l < 4 {
        let (b, n) = unsafe { (BASE[l], LEN[l]) };
        if n > 0 && a >= b && a < b + n * sz {
            return (l, (a - b) / sz);
        }
        l += 1;
    }
    unreachable!()
}

fn stub_matches(p: &Pattern, s: &str) -> bool {
    let (l, i) = locate(p);
    if s != "n" {
        unsafe { NAME_ARG_OK = false };
    }
    unsafe { M_NAME[l][i] }
}

fn stub_matches_path(p: &Pattern, path: &std::path::Path) -> bool {
    let (l, i) = locate(p);
    if path.as_os_str().as_encoded_bytes() != b"d/n" {
        unsafe { PATH_ARG_OK = false };
    }
    unsafe { M_PATH[l][i] }
}

fn stub_matches_prefix(p: &Pattern, _s: &str) -> bool {
    let (l, i) = locate(p);
    unsafe { M_PREFIX[l][i] }
}

fn stub_matches_partially(p: &Pattern, _s: &str) -> bool {
    let (l, i) = locate(p);
    unsafe { M_PARTIAL[l][i] }
}

/// A list of `n` patterns whose contents are never read (all four matchers are stubs) and never dropped.
fn patterns(n: usize, list: usize) -> Vec<Pattern> {
    let mut v: Vec<Pattern> = Vec::with_capacity(MAXP);
    let mut i = 0;
    while i < n {
        v.push(unsafe { std::mem::MaybeUninit::<Pattern>::zeroed().assume_init() });
        i += 1;
    }
    unsafe {
        BASE[list] = v.as_ptr() as usize;
        LEN[list] = n;
    }
    v
}

fn any(m: &[[bool; MAXP]; 4], list: usize) -> bool {
    unsafe { (LEN[list] >= 1 && m[list][0]) || (LEN[list] >= 2 && m[list][1]) }
}

fn setup() -> std::mem::ManuallyDrop<DedupeConfig> {
    let mut config = std::mem::ManuallyDrop::new(DedupeConfig::default());
    let n: [usize; 4] = [kani::any(), kani::any(), kani::any(), kani::any()];
    kani::assume(n[0] <= MAXP && n[1] <= MAXP && n[2] <= MAXP && n[3] <= MAXP);
    unsafe {
        M_NAME = kani::any();
        M_PATH = kani::any();
        M_PREFIX = kani::any();
        M_PARTIAL = kani::any();
    }
    config.keep_name_patterns = patterns(n[0], 0);
    config.keep_path_patterns = patterns(n[1], 1);
    config.name_patterns = patterns(n[2], 2);
    config.path_patterns = patterns(n[3], 3);
    config
}

#[kani::proof]
#[kani::stub(crate::pattern::Pattern::matches, stub_matches)]
#[kani::stub(crate::pattern::Pattern::matches_path, stub_matches_path)]
#[kani::stub(crate::pattern::Pattern::matches_prefix, stub_matches_prefix)]
#[kani::stub(crate::pattern::Pattern::matches_partially, stub_matches_partially)]
#[kani::unwind(8)]
fn c08_path_should_keep_bounded() {
    let config = setup();
    let path = std::mem::ManuallyDrop::new(p2(b"d", b"n"));
    let keep = should_keep(&path, &config);
    unsafe {
        // protected iff its NAME matches a --keep-name pattern as a whole or its whole PATH matches a --keep-path pattern
        assert!(keep == (any(&M_NAME, 0) || any(&M_PATH, 1)),
                "C08.path.kept_iff_name_matches_a_keep_name_pattern_or_whole_path_matches_a_keep_path_pattern");
        assert!(NAME_ARG_OK, "C08.path.name_patterns_are_given_the_file_name");
        assert!(PATH_ARG_OK, "C08.path.path_patterns_are_given_the_whole_path");
        kani::cover!(keep && !any(&M_NAME, 0), "cover.kept_by_a_path_pattern");
        kani::cover!(!keep && LEN[0] == 2 && LEN[1] == 2, "cover.not_kept_with_full_lists");
    }
}

#[kani::proof]
#[kani::stub(crate::pattern::Pattern::matches, stub_matches)]
#[kani::stub(crate::pattern::Pattern::matches_path, stub_matches_path)]
#[kani::stub(crate::pattern::Pattern::matches_prefix, stub_matches_prefix)]
#[kani::stub(crate::pattern::Pattern::matches_partially, stub_matches_partially)]
#[kani::unwind(8)]
fn c08_path_may_drop_bounded() {
    let config = setup();
    let path = std::mem::ManuallyDrop::new(p2(b"d", b"n"));
    let drop = may_drop(&path, &config);
    unsafe {
        // droppable iff no --name / --path restriction was given, or its name matches a --name pattern as a whole, or
        // its whole path matches a --path pattern
        assert!(drop == ((LEN[2] == 0 && LEN[3] == 0) || any(&M_NAME, 2) || any(&M_PATH, 3)),
                "C08.path.droppable_iff_unrestricted_or_name_matches_a_name_pattern_or_whole_path_matches_a_path_pattern");
        assert!(NAME_ARG_OK, "C08.path.name_patterns_are_given_the_file_name");
        assert!(PATH_ARG_OK, "C08.path.path_patterns_are_given_the_whole_path");
        kani::cover!(drop && LEN[2] == 2 && !any(&M_NAME, 2), "cover.droppable_by_a_path_pattern");
        kani::cover!(!drop, "cover.restricted");
    }
}
