//! verif child module of crate::semaphore — sequential contracts of release / the RAII guards (C19), complementing
//! the Verus unit (which proves the acquire loop for any number of wake-ups). `Condvar::notify_one` / `wait` are
//! stubs (futex system calls): `wait` returns with an ARBITRARY counter value (any interleaving of other threads).
#![allow(static_mut_refs)]
use super::*;
use std::sync::{LockResult, MutexGuard};

static mut NOTIFIED: u32 = 0;
static mut WAITS: u32 = 0;
static mut LAST_WOKEN_VALUE: isize = 0;
static mut MAX_WAITS: u32 = 2; // bound of the bounded units: at the latest this wake-up sees a released permit

fn stub_notify_one(_cv: &Condvar) {
    unsafe { NOTIFIED += 1 };
}

fn stub_wait<'a, T>(_cv: &Condvar, mut guard: MutexGuard<'a, T>) -> LockResult<MutexGuard<'a, T>> {
    let v: isize = kani::any();
    unsafe {
        WAITS += 1;
        // bounded stand-in: at the latest the second wake-up sees a released permit
        if WAITS >= MAX_WAITS {
            kani::assume(v > 0);
        }
        LAST_WOKEN_VALUE = v;
        *(&mut *guard as *mut T as *mut isize) = v;
    }
    Ok(guard)
}

fn count(s: &Semaphore) -> isize {
    *s.lock.lock().unwrap()
}

#[kani::proof]
#[kani::stub(std::sync::Condvar::notify_one, stub_notify_one)]
#[kani::unwind(3)]
fn c19_release() {
    let n: isize = kani::any();
    kani::assume(n < isize::MAX);
    unsafe { NOTIFIED = 0 };
    let s = Semaphore::new(n);
    s.release();
    assert!(count(&s) == n + 1, "C19.release.returns_exactly_one_permit");
    assert!(unsafe { NOTIFIED } >= 1, "C19.release.notifies_one_waiter_after_the_increment");
    kani::cover!(n <= 0, "cover.waiters_possible");
}

#[kani::proof]
#[kani::stub(std::sync::Condvar::notify_one, stub_notify_one)]
#[kani::stub(std::sync::Condvar::wait, stub_wait)]
#[kani::unwind(3)]
fn c19_guard_roundtrip() {
    let n: isize = kani::any();
    kani::assume(n > 0);
    unsafe {
        NOTIFIED = 0;
        WAITS = 0;
    }
    let s = Semaphore::new(n);
    {
        let _g = s.access();
        assert!(count(&s) == n - 1, "C19.guard.access_takes_exactly_one_permit");
        assert!(unsafe { WAITS } == 0, "C19.guard.no_wait_when_a_permit_is_free");
        {
            let _g2 = if n > 1 { Some(s.access()) } else { None };
            assert!(count(&s) == if n > 1 { n - 2 } else { n - 1 }, "C19.guard.second_holder_takes_one_more");
        }
        assert!(count(&s) == n - 1, "C19.guard.dropping_one_guard_returns_one_permit");
    }
    assert!(count(&s) == n, "C19.guard.all_permits_back_after_all_guards_dropped");
    assert!(unsafe { NOTIFIED } >= if n > 1 { 2 } else { 1 }, "C19.guard.each_drop_notifies");
    kani::cover!(n > 1, "cover.two_holders");
}

#[kani::proof]
#[kani::stub(std::sync::Condvar::notify_one, stub_notify_one)]
#[kani::stub(std::sync::Condvar::wait, stub_wait)]
#[kani::unwind(3)]
fn c19_owned_guard_roundtrip() {
    let n: isize = kani::any();
    kani::assume(n > 0);
    unsafe {
        NOTIFIED = 0;
        WAITS = 0;
    }
    let s = Arc::new(Semaphore::new(n));
    {
        let _g = s.clone().access_owned();
        assert!(count(&s) == n - 1, "C19.owned_guard.access_takes_exactly_one_permit");
    }
    assert!(count(&s) == n, "C19.owned_guard.all_permits_back_after_drop");
    assert!(unsafe { NOTIFIED } >= 1, "C19.owned_guard.drop_notifies");
    kani::cover!(true, "cover.reached");
}

/// Bounded stand-in [at most 2 wake-ups]: acquire on an exhausted semaphore proceeds only with a positive counter
/// and leaves exactly one permit less than the value it woke up with.
#[kani::proof]
#[kani::stub(std::sync::Condvar::notify_one, stub_notify_one)]
#[kani::stub(std::sync::Condvar::wait, stub_wait)]
#[kani::unwind(4)]
fn c19_acquire_after_wakeups_bounded() {
    let n: isize = kani::any();
    kani::assume(n <= 0);
    unsafe {
        WAITS = 0;
        LAST_WOKEN_VALUE = 0;
    }
    let s = Semaphore::new(n);
    s.acquire();
    unsafe {
        assert!(WAITS >= 1, "C19.acquire.blocks_while_no_permit");
        assert!(LAST_WOKEN_VALUE > 0, "C19.acquire.proceeds_only_with_a_positive_counter");
        assert!(count(&s) == LAST_WOKEN_VALUE - 1, "C19.acquire.takes_exactly_one_permit");
        kani::cover!(WAITS == 2, "cover.spurious_wakeup_then_permit");
    }
}

/// Interference model: whenever the mutex is taken, other threads may have changed the counter arbitrarily since it was
/// last released (they hold the lock in between). An acquire that checks and takes the permit under ONE lock is immune;
/// one that releases the lock between the check and the decrement is not.
static mut LOCKS_TAKEN: u32 = 0;

fn stub_lock_with_interference<T>(m: &std::sync::Mutex<T>) -> LockResult<MutexGuard<'_, T>> {
    let mut g = match m.try_lock() {
        Ok(g) => g,
        Err(_) => {
            kani::assume(false);
            unreachable!()
        }
    };
    unsafe {
        LOCKS_TAKEN += 1;
        let v: isize = kani::any();
        *(&mut *g as *mut T as *mut isize) = v;
    }
    Ok(g)
}

/// Bounded stand-in [at most 2 wake-ups, counter rewritten by other threads at every lock acquisition]: after acquire
/// returns, the counter it left behind is not negative, i.e. the permit it took existed when it was taken.
#[kani::proof]
#[kani::stub(std::sync::Condvar::notify_one, stub_notify_one)]
#[kani::stub(std::sync::Condvar::wait, stub_wait)]
#[kani::stub(std::sync::Mutex::lock, stub_lock_with_interference)]
#[kani::unwind(5)]
fn c19_acquire_under_interference_bounded() {
    unsafe {
        WAITS = 0;
        LOCKS_TAKEN = 0;
    }
    let s = Semaphore::new(0);
    s.acquire();
    // read the counter without going through the interfering lock stub
    let after = *s.lock.try_lock().unwrap();
    assert!(after >= 0, "C19.acquire.check_and_take_are_one_critical_section");
    kani::cover!(unsafe { WAITS } >= 1, "cover.waited");
}

// thorough tier: the two bounded acquire units with up to 4 wake-ups
#[kani::proof]
#[kani::stub(std::sync::Condvar::notify_one, stub_notify_one)]
#[kani::stub(std::sync::Condvar::wait, stub_wait)]
#[kani::unwind(6)]
fn c19_acquire_after_wakeups_bounded4() {
    let n: isize = kani::any();
    kani::assume(n <= 0);
    unsafe {
        WAITS = 0;
        LAST_WOKEN_VALUE = 0;
        MAX_WAITS = 4;
    }
    let s = Semaphore::new(n);
    s.acquire();
    unsafe {
        assert!(WAITS >= 1, "C19.acquire.blocks_while_no_permit");
        assert!(LAST_WOKEN_VALUE > 0, "C19.acquire.proceeds_only_with_a_positive_counter");
        assert!(count(&s) == LAST_WOKEN_VALUE - 1, "C19.acquire.takes_exactly_one_permit");
        kani::cover!(WAITS == 4, "cover.three_spurious_wakeups_then_permit");
    }
}

#[kani::proof]
#[kani::stub(std::sync::Condvar::notify_one, stub_notify_one)]
#[kani::stub(std::sync::Condvar::wait, stub_wait)]
#[kani::stub(std::sync::Mutex::lock, stub_lock_with_interference)]
#[kani::unwind(7)]
fn c19_acquire_under_interference_bounded4() {
    unsafe {
        WAITS = 0;
        LOCKS_TAKEN = 0;
        MAX_WAITS = 4;
    }
    let s = Semaphore::new(0);
    s.acquire();
    let after = *s.lock.try_lock().unwrap();
    assert!(after >= 0, "C19.acquire.check_and_take_are_one_critical_section");
    kani::cover!(unsafe { WAITS } >= 3, "cover.waited_three_times");
}
