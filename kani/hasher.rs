//! verif child module of crate::hasher — C15 (error mapping of the *_or_log_err wrappers) and C12.hasher_flow
//! (how FileHasher::hash_file uses the cache). `file_hash`/`stream_hash`/`scan` keep their buffer in a
//! thread_local, which the Kani compiler cannot compile (DESIGN F9): they are replaced by a ghost hash.
#![allow(static_mut_refs)]
use super::*;
use crate::dedupe::verif_dedupe::{stub_format, NullLog, WARNED};
use crate::file::verif_file::fake_metadata;
use crate::path::verif_path::p1;

/// a 16-byte hash whose u128 prefix is `first` (built from a slice: FileHash::from(u128) grows a Vec from a dangling
/// pointer, which made CBMC's memory model report spurious failures in sibling units)
fn h16(first: u8) -> FileHash {
    let b: [u8; 16] = [first, 0, 0, 0, 0, 0, 0, 0, 0, 0, 0, 0, 0, 0, 0, 0];
    FileHash::from(&b[..])
}

// ---------------------------------------------------------------------------------------------------------
// C15.hash_err_to_none

static mut HASH_OUTCOME: u8 = 0; // 0 = Ok, 1 = Err(NotFound), 2 = Err(PermissionDenied), 3 = Err(Other)

fn outcome_err() -> io::Error {
    unsafe {
        match HASH_OUTCOME {
            1 => io::Error::from(io::ErrorKind::NotFound),
            2 => io::Error::from(io::ErrorKind::PermissionDenied),
            _ => io::Error::from(io::ErrorKind::Other),
        }
    }
}

fn stub_hash_file<'h>(_h: &FileHasher<'h>, _c: &FileChunk<'_>, _p: impl Fn(usize)) -> io::Result<FileHash>
where
    'h: 'h,
{
    if unsafe { HASH_OUTCOME } == 0 {
        Ok(h16(7))
    } else {
        Err(outcome_err())
    }
}

fn stub_hash_transformed<'h>(_h: &FileHasher<'h>, _c: &FileChunk<'_>, _p: impl Fn(usize)) -> io::Result<(FileLen, FileHash)>
where
    'h: 'h,
{
    if unsafe { HASH_OUTCOME } == 0 {
        Ok((FileLen(3), h16(7)))
    } else {
        Err(outcome_err())
    }
}

fn stub_to_escaped_string(_p: &Path) -> String {
    String::new()
}

fn err_mapping_post(is_some: bool) {
    unsafe {
        // a failed read never yields a hash; a successful one always does
        assert!(is_some == (HASH_OUTCOME == 0), "C15.hash_err_to_none.none_iff_error");
        // warning iff the error is not "the entry vanished"
        assert!(WARNED == (HASH_OUTCOME >= 2), "C15.hash_err_to_none.warn_iff_not_notfound");
    }
}

macro_rules! err_unit {
    ($name:ident, $outcome:expr, $transformed:expr) => {
        #[kani::proof]
        #[kani::stub(alloc::fmt::format, stub_format)]
        #[kani::stub(crate::path::Path::to_escaped_string, stub_to_escaped_string)]
        #[kani::stub(FileHasher::hash_file, stub_hash_file)]
        #[kani::stub(FileHasher::hash_transformed, stub_hash_transformed)]
        #[kani::unwind(20)]
        fn $name() {
            unsafe {
                HASH_OUTCOME = $outcome;
                WARNED = false;
            }
            let log = NullLog;
            let hasher = FileHasher::new(HashFn::Metro, None, &log);
            let path = p1(b"f");
            let chunk = FileChunk::new(&path, FilePos(0), FileLen(kani::any()));
            let is_some = if $transformed {
                let r = hasher.hash_transformed_or_log_err(&chunk, |_| {});
                let s = r.is_some();
                std::mem::forget(r);
                s
            } else {
                let r = hasher.hash_file_or_log_err(&chunk, |_| {});
                let s = r.is_some();
                std::mem::forget(r);
                s
            };
            std::mem::forget(hasher);
            err_mapping_post(is_some);
            kani::cover!(true, "cover.reached");
        }
    };
}
err_unit!(c15_hash_file_ok, 0, false);
err_unit!(c15_hash_file_notfound, 1, false);
err_unit!(c15_hash_file_denied, 2, false);
err_unit!(c15_hash_file_other, 3, false);
err_unit!(c15_hash_transformed_ok, 0, true);
err_unit!(c15_hash_transformed_notfound, 1, true);
err_unit!(c15_hash_transformed_denied, 2, true);
err_unit!(c15_hash_transformed_other, 3, true);

// ---------------------------------------------------------------------------------------------------------
// C12.hasher_flow — FileHasher::hash_file over a one-slot ghost cache

static mut METADATA_AVAILABLE: bool = true;
static mut SLOT_HIT: bool = false; // the assumed `get` contract decided "same key, same (mtime-ms, len)"
static mut GET_CALLS: u32 = 0;
static mut PUT_CALLS: u32 = 0;
static mut COMPUTED: u32 = 0;
static mut PUT_KEY_OK: bool = true;
static mut PUT_VALUE_OK: bool = true;
static mut GET_KEY_OK: bool = true;
static mut COMPUTE_FAILS: bool = false;
const STORED: u128 = 11;
const FRESH: u128 = 22;
static mut CHUNK_POS: u64 = 0;
static mut CHUNK_LEN: u64 = 0;

fn stub_file_metadata_new(_path: &Path) -> io::Result<FileMetadata> {
    if unsafe { METADATA_AVAILABLE } {
        Ok(fake_metadata(1))
    } else {
        Err(io::Error::from(io::ErrorKind::NotFound))
    }
}

fn key_is_for_this_chunk(key: &Key) -> bool {
    // Key's fields are private to crate::cache; compare through its verif module
    crate::cache::verif_cache::key_matches(key, 1, unsafe { CHUNK_POS }, unsafe { CHUNK_LEN })
}

/// Assumed contract of HashCache::get (its validation `if` is unit C12.get_guard): a hit returns what was stored.
fn stub_cache_get(_c: &HashCache, key: &Key, _m: &FileMetadata) -> Result<Option<(FileLen, FileHash)>, Error> {
    unsafe {
        GET_CALLS += 1;
        if !key_is_for_this_chunk(key) {
            GET_KEY_OK = false;
        }
        if SLOT_HIT {
            Ok(Some((FileLen(CHUNK_LEN), h16(STORED as u8))))
        } else {
            Ok(None)
        }
    }
}

fn stub_cache_put(_c: &HashCache, key: &Key, _m: &FileMetadata, data_len: FileLen, hash: FileHash) -> Result<(), Error> {
    unsafe {
        PUT_CALLS += 1;
        if !key_is_for_this_chunk(key) {
            PUT_KEY_OK = false;
        }
        if !(data_len.0 == CHUNK_LEN && hash.u128_prefix() == FRESH) {
            PUT_VALUE_OK = false;
        }
    }
    std::mem::forget(hash);
    Ok(())
}

fn stub_file_hash<H: StreamHasher>(_chunk: &FileChunk<'_>, _buf_len: usize, _progress: impl Fn(usize)) -> io::Result<FileHash> {
    unsafe {
        COMPUTED += 1;
        if COMPUTE_FAILS {
            return Err(io::Error::from(io::ErrorKind::Other));
        }
    }
    Ok(h16(FRESH as u8))
}

#[kani::proof]
#[kani::stub(alloc::fmt::format, stub_format)]
#[kani::stub(crate::file::FileMetadata::new, stub_file_metadata_new)]
#[kani::stub(crate::cache::HashCache::get, stub_cache_get)]
#[kani::stub(crate::cache::HashCache::put, stub_cache_put)]
#[kani::stub(file_hash, stub_file_hash)]
#[kani::unwind(20)]
fn c12_hasher_flow() {
    let cached: bool = kani::any();
    unsafe {
        METADATA_AVAILABLE = kani::any();
        SLOT_HIT = kani::any();
        COMPUTE_FAILS = kani::any();
        CHUNK_POS = kani::any();
        CHUNK_LEN = kani::any();
        GET_CALLS = 0;
        PUT_CALLS = 0;
        COMPUTED = 0;
        PUT_KEY_OK = true;
        PUT_VALUE_OK = true;
        GET_KEY_OK = true;
    }
    let log = NullLog;
    let mut hasher = FileHasher::new(HashFn::Metro, None, &log);
    if cached {
        // a HashCache value that is never used (get/put are stubbed, key() does not touch it) and never dropped
        let mut c = std::mem::MaybeUninit::<HashCache>::uninit();
        unsafe { std::ptr::write_bytes(c.as_mut_ptr(), 1, 1) };
        // ptr::write: a plain assignment would drop the old value, and Option<HashCache>'s drop glue (sled) makes Kani crash
        unsafe { std::ptr::write(&mut hasher.cache, Some(c.assume_init())) };
    }
    let path = p1(b"f");
    let chunk = FileChunk::new(&path, FilePos(unsafe { CHUNK_POS }), FileLen(unsafe { CHUNK_LEN }));
    let r = hasher.hash_file(&chunk, |_| {});
    let got = match &r {
        Ok(h) => Some(h.u128_prefix()),
        Err(_) => None,
    };
    std::mem::forget(r);
    std::mem::forget(hasher);
    unsafe {
        let usable = cached && METADATA_AVAILABLE;
        if usable && SLOT_HIT {
            assert!(got == Some(STORED) && COMPUTED == 0, "C12.hasher_flow.hit_returns_stored_value_without_reading");
            assert!(PUT_CALLS == 0, "C12.hasher_flow.hit_does_not_rewrite");
        } else {
            assert!(COMPUTED >= 1, "C12.hasher_flow.miss_computes_the_hash");
            assert!(got == if COMPUTE_FAILS { None } else { Some(FRESH) }, "C12.hasher_flow.miss_returns_fresh_hash");
            assert!(PUT_CALLS == if usable && !COMPUTE_FAILS { 1 } else { 0 }, "C12.hasher_flow.only_successful_hashes_are_stored");
        }
        assert!(GET_CALLS == if usable { 1 } else { 0 }, "C12.hasher_flow.uncached_or_no_metadata_bypasses_cache");
        assert!(GET_KEY_OK && PUT_KEY_OK, "C12.hasher_flow.key_is_file_id_chunk_pos_chunk_len");
        assert!(PUT_VALUE_OK, "C12.hasher_flow.stores_fresh_hash_and_chunk_len");
        kani::cover!(usable && SLOT_HIT, "cover.hit");
        kani::cover!(usable && !SLOT_HIT && PUT_CALLS == 1, "cover.miss_stored");
        kani::cover!(!cached, "cover.uncached");
    }
}


// ---------------------------------------------------------------------------------------------------------
// C12.cache_identity — FileHasher::new_cached opens the cache that belongs to (hash function, whole transform command):
// switching either between runs must select a different tree, so a stale hash of another configuration is never served.

static mut OPENED_WITH_FULL_COMMAND: bool = false;
static mut OPENED_WITH_NONE: bool = false;
static mut OPENED_ALGORITHM_OK: bool = false;
static mut OPEN_CALLS: u32 = 0;
static mut EXPECT_ALGO: u8 = 0;

fn algo_code(a: HashFn) -> u8 {
    match a {
        HashFn::Metro => 0,
        HashFn::Xxhash => 1,
        HashFn::Blake3 => 2,
        HashFn::Sha256 => 3,
        HashFn::Sha512 => 4,
        HashFn::Sha3_256 => 5,
        HashFn::Sha3_512 => 6,
    }
}

fn stub_open_default(transform: Option<&str>, algorithm: HashFn) -> Result<HashCache, Error> {
    unsafe {
        OPEN_CALLS += 1;
        OPENED_WITH_NONE = transform.is_none();
        OPENED_WITH_FULL_COMMAND = match transform {
            Some(s) => s.as_bytes() == b"prog -x $IN",
            None => false,
        };
        OPENED_ALGORITHM_OK = algo_code(algorithm) == EXPECT_ALGO;
        let mut c = std::mem::MaybeUninit::<HashCache>::uninit();
        std::ptr::write_bytes(c.as_mut_ptr(), 1, 1);
        Ok(c.assume_init())
    }
}

fn stub_remove_dir_all_quiet<P: AsRef<std::path::Path>>(_path: P) -> io::Result<()> {
    Ok(())
}

fn some_algorithm() -> HashFn {
    let k: u8 = kani::any();
    match k % 7 {
        0 => HashFn::Metro,
        1 => HashFn::Xxhash,
        2 => HashFn::Blake3,
        3 => HashFn::Sha256,
        4 => HashFn::Sha512,
        5 => HashFn::Sha3_256,
        _ => HashFn::Sha3_512,
    }
}

#[kani::proof]
#[kani::stub(crate::cache::HashCache::open_default, stub_open_default)]
#[kani::stub(std::fs::remove_dir_all, stub_remove_dir_all_quiet)]
#[kani::unwind(16)]
fn c12_cache_identity() {
    let with_transform: bool = kani::any();
    let algorithm = some_algorithm();
    unsafe {
        OPEN_CALLS = 0;
        EXPECT_ALGO = algo_code(algorithm);
    }
    let transform = if with_transform {
        Some(Transform {
            command_str: String::from("prog -x $IN"),
            tmp_dir: std::path::PathBuf::from("/t"),
            copy: true,
            in_place: false,
            program: String::from("prog"),
        })
    } else {
        None
    };
    let log = NullLog;
    let r = FileHasher::new_cached(algorithm, transform, &log);
    let ok = r.is_ok();
    std::mem::forget(r);
    unsafe {
        assert!(ok && OPEN_CALLS >= 1, "C12.cache_identity.cache_opened_once");
        assert!(OPENED_ALGORITHM_OK, "C12.cache_identity.tree_selected_by_hash_function");
        if with_transform {
            assert!(OPENED_WITH_FULL_COMMAND, "C12.cache_identity.tree_selected_by_the_whole_transform_command");
        } else {
            assert!(OPENED_WITH_NONE, "C12.cache_identity.no_transform_means_the_untransformed_tree");
        }
        kani::cover!(with_transform, "cover.transform");
        kani::cover!(!with_transform, "cover.no_transform");
    }
}
