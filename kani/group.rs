//! verif child module of crate::group — bounded stand-in for the replica count (C06): real FileGroup::subgroup_count
//! / FileSubGroup::group on up to 3 files placed under two isolated roots or outside them, against the counting rule
//! of the property: all paths under one root are one replica; outside the roots hard links (same file id) are one
//! replica unless --match-links (group_by_id = false), in which case every path counts.
use super::*;
use crate::path::verif_path::{p1, p2};

fn mk(loc: u8, name: u8, id: u64) -> FileInfo {
    let dir: &[u8] = match loc {
        0 => b"A",
        1 => b"B",
        _ => b"C",
    };
    FileInfo { path: p2(dir, &[name]), id: FileId { device: 1, inode: id as crate::file::InodeId }, len: FileLen(1), location: 0 }
}

/// The counting rule of the property, written directly over (location, id) pairs.
fn spec_count(n: usize, loc: [u8; 3], id: [u64; 3], with_roots: bool, group_by_id: bool) -> usize {
    let mut count = 0;
    let mut i = 0;
    while i < n {
        // is file i the first member of its replica class?
        let mut first = true;
        let mut j = 0;
        while j < i {
            let same_root = with_roots && loc[i] < 2 && loc[i] == loc[j];
            let i_free = !(with_roots && loc[i] < 2);
            let j_free = !(with_roots && loc[j] < 2);
            let same_id = group_by_id && i_free && j_free && id[i] == id[j];
            if same_root || same_id {
                first = false;
            }
            j += 1;
        }
        if first {
            count += 1;
        }
        i += 1;
    }
    count
}

fn subgroup_count_harness(group_by_id: bool) {
    let n: usize = kani::any();
    kani::assume(n >= 1 && n <= 3);
    let loc: [u8; 3] = [kani::any(), kani::any(), kani::any()];
    kani::assume(loc[0] <= 2 && loc[1] <= 2 && loc[2] <= 2);
    let id: [u64; 3] = if group_by_id { [kani::any(), kani::any(), kani::any()] } else { [1, 2, 3] };
    kani::assume(id[0] >= 1 && id[0] <= 2 && id[1] >= 1 && id[1] <= 2 && id[2] >= 1 && id[2] <= 3);
    let with_roots: bool = kani::any();
    let mut files = Vec::new();
    files.push(mk(loc[0], b'x', id[0]));
    if n >= 2 {
        files.push(mk(loc[1], b'y', id[1]));
    }
    if n >= 3 {
        files.push(mk(loc[2], b'z', id[2]));
    }
    let g = FileGroup { file_len: FileLen(1), file_hash: FileHash::from(0u128), files };
    let filter = FileGroupFilter {
        replication: Replication::Overreplicated(1),
        root_paths: if with_roots { vec![p1(b"A"), p1(b"B")] } else { vec![] },
        group_by_id,
    };
    let c = g.subgroup_count(&filter);
    assert!(c == spec_count(n, loc, id, with_roots, group_by_id), "C06.subgroup_count.replicas_counted_per_root_and_per_file_id");
    kani::cover!(with_roots && n == 3 && c == 1, "cover.three_paths_one_root");
    kani::cover!(!with_roots && n == 3 && c == 3, "cover.three_replicas");
    std::mem::forget(g);
    std::mem::forget(filter);
}

#[kani::proof]
#[kani::unwind(8)]
fn c06_subgroup_count_match_links_bounded() {
    subgroup_count_harness(false);
}

#[kani::proof]
#[kani::unwind(8)]
fn c06_subgroup_count_by_id_bounded() {
    subgroup_count_harness(true);
}
