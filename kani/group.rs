//! verif child module of crate::group — C14: the header totals `write_report` computes with `file_count` / `total_size`
//! are the number of files listed in the body and the sum of their lengths (bounded stand-in).
use super::*;

fn group_of(n: usize, len: u64) -> FileGroup<u8> {
    let mut files = Vec::new();
    let mut i = 0;
    while i < n {
        files.push(i as u8);
        i += 1;
    }
    FileGroup { file_len: FileLen(len), file_hash: FileHash::from(&[0u8; 16][..]), files }
}

#[kani::proof]
#[kani::unwind(6)]
fn c14_header_totals_bounded() {
    let (n1, n2): (usize, usize) = (kani::any(), kani::any());
    kani::assume(n1 <= 3 && n2 <= 3);
    let (l1, l2): (u64, u64) = (kani::any(), kani::any());
    kani::assume(l1 <= (1u64 << 40) && l2 <= (1u64 << 40)); // no overflow of the sums (not claimed)
    let groups = std::mem::ManuallyDrop::new(vec![group_of(n1, l1), group_of(n2, l2)]);
    let count = file_count(groups.iter());
    let size = total_size(groups.iter());
    assert!(count == n1 + n2, "C14.header.total_file_count_is_the_number_of_files_listed");
    assert!(size.0 == l1 * n1 as u64 + l2 * n2 as u64, "C14.header.total_file_size_is_the_sum_of_the_listed_files_lengths");
    kani::cover!(n1 == 3 && n2 == 0, "cover.empty_group");
    kani::cover!(count == 6, "cover.full");
}

/// C14: without --isolate roots the order in which `sort_by_path` lists the paths of a group depends only on the SET of
/// paths - every permutation of the same files ends in the same order - and no path is lost or duplicated (bounded
/// stand-in: 3 files with distinct one-byte names in one directory, all 6 input orders against the identity).
#[kani::proof]
#[kani::unwind(8)]
fn c14_sort_by_path_no_roots_bounded() {
    use crate::path::verif_path::{p2, tag};
    let n: [u8; 3] = [kani::any(), kani::any(), kani::any()];
    kani::assume(n[0] != 0 && n[1] != 0 && n[2] != 0 && n[0] != b'/' && n[1] != b'/' && n[2] != b'/');
    kani::assume(n[0] != n[1] && n[1] != n[2] && n[0] != n[2]); // the paths of a group are distinct
    const PERMS: [[usize; 3]; 6] = [[0, 1, 2], [0, 2, 1], [1, 0, 2], [1, 2, 0], [2, 0, 1], [2, 1, 0]];
    let k: usize = kani::any();
    kani::assume(k < 6);
    let fi = |i: usize| FileInfo { path: p2(b"d", &[n[i]]), id: FileId { device: 1, inode: i as _ }, len: FileLen(1), location: 0 };
    let group = |o: [usize; 3]| FileGroup { file_len: FileLen(1), file_hash: FileHash::from(&[0u8; 16][..]), files: vec![fi(o[0]), fi(o[1]), fi(o[2])] };
    let mut g = group(PERMS[0]);
    let mut h = group(PERMS[k]);
    g.sort_by_path(&[]);
    h.sort_by_path(&[]);
    assert!(g.files.len() == 3 && h.files.len() == 3, "C14.sort_by_path.no_path_is_lost_or_added");
    let ids = [g.files[0].id.inode, g.files[1].id.inode, g.files[2].id.inode];
    assert!(ids[0] != ids[1] && ids[1] != ids[2] && ids[0] != ids[2], "C14.sort_by_path.no_path_is_lost_or_added");
    assert!(tag(&g.files[0].path) == n[ids[0] as usize] && tag(&g.files[1].path) == n[ids[1] as usize] && tag(&g.files[2].path) == n[ids[2] as usize],
            "C14.sort_by_path.every_path_keeps_its_own_file_information");
    assert!(g.files[0].id.inode == h.files[0].id.inode && g.files[1].id.inode == h.files[1].id.inode && g.files[2].id.inode == h.files[2].id.inode,
            "C14.sort_by_path.the_order_depends_only_on_the_set_of_paths");
    std::mem::forget(g);
    std::mem::forget(h);
    kani::cover!(k == 5 && n[0] > n[1] && n[1] > n[2], "cover.reversed_input");
}
