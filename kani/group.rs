//! verif child module of crate::group — C14: the header totals `write_report` computes with `file_count` / `total_size`
//! are the number of files listed in the body and the sum of their lengths (bounded stand-in).
use super::*;

fn group_of(n: usize, len: u64) -> FileGroup<u8> {
    let mut files = Vec::new();
    let mut i = 0;
    while i < n {
        files.push(i as u8);
        i += 1;
    }
    FileGroup { file_len: FileLen(len), file_hash: FileHash::from(&[0u8; 16][..]), files }
}

#[kani::proof]
#[kani::unwind(6)]
fn c14_header_totals_bounded() {
    let (n1, n2): (usize, usize) = (kani::any(), kani::any());
    kani::assume(n1 <= 3 && n2 <= 3);
    let (l1, l2): (u64, u64) = (kani::any(), kani::any());
    kani::assume(l1 <= (1u64 << 40) && l2 <= (1u64 << 40)); // no overflow of the sums (not claimed)
    let groups = std::mem::ManuallyDrop::new(vec![group_of(n1, l1), group_of(n2, l2)]);
    let count = file_count(groups.iter());
    let size = total_size(groups.iter());
    assert!(count == n1 + n2, "C14.header.total_file_count_is_the_number_of_files_listed");
    assert!(size.0 == l1 * n1 as u64 + l2 * n2 as u64, "C14.header.total_file_size_is_the_sum_of_the_listed_files_lengths");
    kani::cover!(n1 == 3 && n2 == 0, "cover.empty_group");
    kani::cover!(count == 6, "cover.full");
}
