//! verif child module of crate::dedupe — C08: sub-groups (hard-link sets, isolated roots) are kept or dropped as a
//! whole, and the nesting / report-order priorities rank sub-groups as documented (bounded stand-ins).
#![allow(static_mut_refs)]
use super::*;
use crate::file::verif_file::fake_metadata;
use crate::path::verif_path::{p1, p2, tag};

static mut KEEP: [bool; 3] = [false; 3]; // path-level --keep-name / --keep-path decision per file
static mut DROP: [bool; 3] = [false; 3]; // path-level --name / --path decision per file

fn idx(p: &Path) -> usize {
    (tag(p) - b'a') as usize
}

/// Assumed contracts of the path-level pattern tests (glob matching needs the regex engine): arbitrary per file.
fn stub_should_keep(path: &Path, _config: &DedupeConfig) -> bool {
    unsafe { KEEP[idx(path)] }
}

fn stub_may_drop(path: &Path, _config: &DedupeConfig) -> bool {
    unsafe { DROP[idx(path)] }
}

fn pm(name: u8, deep: bool) -> Arc<PathAndMetadata> {
    let path = if deep { p2(b"d", &[name]) } else { p1(&[name]) };
    Arc::new(PathAndMetadata { path, metadata: fake_metadata(0) })
}

#[kani::proof]
#[kani::stub(crate::dedupe::should_keep, stub_should_keep)]
#[kani::stub(crate::dedupe::may_drop, stub_may_drop)]
#[kani::unwind(6)]
fn c08_subgroup_keep_drop_bounded() {
    let n: usize = kani::any();
    kani::assume(n >= 1 && n <= 3);
    unsafe {
        KEEP = [kani::any(), kani::any(), kani::any()];
        DROP = [kani::any(), kani::any(), kani::any()];
    }
    let mut files = Vec::new();
    files.push(pm(b'a', false));
    if n >= 2 {
        files.push(pm(b'b', false));
    }
    if n >= 3 {
        files.push(pm(b'c', false));
    }
    let sg = FileSubGroup { files };
    let config = DedupeConfig::default();
    let keep = sg.should_keep(&config);
    let drop = sg.may_drop(&config);
    unsafe {
        let any_keep = KEEP[0] || (n >= 2 && KEEP[1]) || (n >= 3 && KEEP[2]);
        let all_drop = DROP[0] && (n < 2 || DROP[1]) && (n < 3 || DROP[2]);
        // a link set / root is protected as soon as ONE of its paths matches a keep pattern ...
        assert!(keep == any_keep, "C08.subgroup.kept_if_any_path_matches_a_keep_pattern");
        // ... and may be dropped only if EVERY one of its paths matches the drop patterns
        assert!(drop == all_drop, "C08.subgroup.droppable_only_if_every_path_matches_the_drop_patterns");
        kani::cover!(n == 3 && !drop && DROP[0] && DROP[1], "cover.partially_matching_set_is_not_droppable");
        kani::cover!(n == 3 && keep && !KEEP[0], "cover.kept_by_a_later_path");
    }
    std::mem::forget(sg);
    std::mem::forget(config);
}

fn order_of(files: &[FileSubGroup<Arc<PathAndMetadata>>]) -> [u8; 3] {
    [tag(&files[0].files[0].path), tag(&files[1].files[0].path), tag(&files[2].files[0].path)]
}

/// Three sub-groups a, b, c (report order), each of one path that is nested (d/x) or not (x). `sort_by_priority` puts the
/// sub-groups to keep FIRST is NOT what it does: it sorts so that higher priority = LATER; ties keep report order.
fn sort_harness(priority: Priority) -> ([bool; 3], [u8; 3]) {
    let deep: [bool; 3] = [kani::any(), kani::any(), kani::any()];
    let mut groups = vec![
        FileSubGroup { files: vec![pm(b'a', deep[0])] },
        FileSubGroup { files: vec![pm(b'b', deep[1])] },
        FileSubGroup { files: vec![pm(b'c', deep[2])] },
    ];
    let errs = sort_by_priority(&mut groups, &priority);
    assert!(errs.is_empty(), "C08.priority.nesting_priorities_never_fail");
    let o = order_of(&groups);
    std::mem::forget(groups);
    (deep, o)
}

fn depth_of(deep: [bool; 3], t: u8) -> usize {
    if deep[(t - b'a') as usize] { 2 } else { 1 }
}

fn sorted_stable(deep: [bool; 3], o: [u8; 3], ascending: bool) -> bool {
    let mut ok = true;
    let mut i = 0;
    while i < 2 {
        let (x, y) = (depth_of(deep, o[i]), depth_of(deep, o[i + 1]));
        if ascending && x > y || !ascending && x < y {
            ok = false;
        }
        if x == y && o[i] > o[i + 1] {
            ok = false; // ties keep the report order (stable)
        }
        i += 1;
    }
    ok
}

#[kani::proof]
#[kani::unwind(8)]
fn c08_priority_least_nested_bounded() {
    let (deep, o) = sort_harness(Priority::LeastNested);
    // higher priority (= less nested) later; equally nested replicas keep the report order
    assert!(sorted_stable(deep, o, false), "C08.priority.least_nested_sorts_descending_by_nesting_and_keeps_ties_in_report_order");
    kani::cover!(deep[0] && !deep[1], "cover.reordered");
}

#[kani::proof]
#[kani::unwind(8)]
fn c08_priority_most_nested_bounded() {
    let (deep, o) = sort_harness(Priority::MostNested);
    assert!(sorted_stable(deep, o, true), "C08.priority.most_nested_sorts_ascending_by_nesting_and_keeps_ties_in_report_order");
    kani::cover!(!deep[0] || deep[1], "cover.any");
}

#[kani::proof]
#[kani::unwind(8)]
fn c08_priority_top_bottom_bounded() {
    let (_d, o) = sort_harness(Priority::Bottom);
    assert!(o == [b'a', b'b', b'c'], "C08.priority.bottom_keeps_report_order");
    let (_d, o) = sort_harness(Priority::Top);
    assert!(o == [b'c', b'b', b'a'], "C08.priority.top_reverses_report_order");
    kani::cover!(true, "cover.reached");
}

// ---------------------------------------------------------------------------------------------------------
// time-based priorities: fs::Metadata::{created, modified, accessed} are stubs reading a symbolic table of whole seconds
// (indexed by the fabricated metadata's index); the real FileSubGroup::{created, modified, accessed}, min_result /
// max_result, try_sort_by_key and sort_by_priority run on top of them.
static mut T_CREATED: [u8; 3] = [0; 3];
static mut T_MODIFIED: [u8; 3] = [0; 3];
static mut T_ACCESSED: [u8; 3] = [0; 3];

fn stub_format_c08(_args: std::fmt::Arguments<'_>) -> String {
    String::new()
}

fn at(secs: u8) -> io::Result<SystemTime> {
    Ok(SystemTime::UNIX_EPOCH + std::time::Duration::from_secs(secs as u64))
}

fn stub_created(m: &fs::Metadata) -> io::Result<SystemTime> {
    at(unsafe { T_CREATED[crate::file::verif_file::metadata_index(m) as usize] })
}

fn stub_modified(m: &fs::Metadata) -> io::Result<SystemTime> {
    at(unsafe { T_MODIFIED[crate::file::verif_file::metadata_index(m) as usize] })
}

fn stub_accessed(m: &fs::Metadata) -> io::Result<SystemTime> {
    at(unsafe { T_ACCESSED[crate::file::verif_file::metadata_index(m) as usize] })
}

fn pmi(name: u8, idx: u64) -> Arc<PathAndMetadata> {
    Arc::new(PathAndMetadata { path: p1(&[name]), metadata: fake_metadata(idx) })
}

fn times() -> [u8; 3] {
    let t: [u8; 3] = [kani::any(), kani::any(), kani::any()];
    kani::assume(t[0] <= 2 && t[1] <= 2 && t[2] <= 2);
    t
}

/// Two sub-groups a, b (report order) of one file each: whether they were swapped.
fn time_sort2(priority: Priority) -> bool {
    let mut groups = vec![FileSubGroup { files: vec![pmi(b'a', 0)] }, FileSubGroup { files: vec![pmi(b'b', 1)] }];
    let errs = sort_by_priority(&mut groups, &priority);
    assert!(errs.is_empty(), "C08.priority.readable_times_never_fail");
    let swapped = tag(&groups[0].files[0].path) == b'b';
    std::mem::forget(groups);
    swapped
}

/// One unit per time-based priority. The replica with the highest priority (to be dropped first) is sorted LAST:
/// `newest` = latest creation last, `oldest` = earliest creation last, and likewise for modification and access time;
/// replicas with equal times keep the report order.
macro_rules! time_priority_unit {
    ($name:ident, $table:ident, $prio:expr, $later_last:expr, $ob:expr) => {
        #[kani::proof]
        #[kani::stub(std::fs::Metadata::created, stub_created)]
        #[kani::stub(std::fs::Metadata::modified, stub_modified)]
        #[kani::stub(std::fs::Metadata::accessed, stub_accessed)]
        #[kani::stub(alloc::fmt::format, stub_format_c08)]
        #[kani::unwind(6)]
        fn $name() {
            // the three kinds of time are independent of each other: the obligation pins down WHICH one is compared
            unsafe {
                T_CREATED = times();
                T_MODIFIED = times();
                T_ACCESSED = times();
            }
            let t = unsafe { $table };
            let swapped = time_sort2($prio);
            let expect = if $later_last { t[0] > t[1] } else { t[0] < t[1] };
            assert!(swapped == expect, $ob);
            kani::cover!(swapped, "cover.reordered");
            kani::cover!(!swapped && t[0] == t[1], "cover.tie");
        }
    };
}

time_priority_unit!(c08_priority_newest_bounded, T_CREATED, Priority::Newest, true,
    "C08.priority.newest_puts_the_newest_replica_last_ties_in_report_order");
time_priority_unit!(c08_priority_oldest_bounded, T_CREATED, Priority::Oldest, false,
    "C08.priority.oldest_puts_the_oldest_replica_last_ties_in_report_order");
time_priority_unit!(c08_priority_most_recently_modified_bounded, T_MODIFIED,
    Priority::MostRecentlyModified, true, "C08.priority.most_recently_modified_puts_the_latest_modified_replica_last");
time_priority_unit!(c08_priority_least_recently_modified_bounded, T_MODIFIED,
    Priority::LeastRecentlyModified, false, "C08.priority.least_recently_modified_puts_the_earliest_modified_replica_last");
time_priority_unit!(c08_priority_most_recently_accessed_bounded, T_ACCESSED,
    Priority::MostRecentlyAccessed, true, "C08.priority.most_recently_accessed_puts_the_latest_accessed_replica_last");
time_priority_unit!(c08_priority_least_recently_accessed_bounded, T_ACCESSED,
    Priority::LeastRecentlyAccessed, false, "C08.priority.least_recently_accessed_puts_the_earliest_accessed_replica_last");

/// The time of a sub-group of several paths (a hard-link set, an isolated root): earliest creation, latest modification
/// and access over its files.
#[kani::proof]
#[kani::stub(std::fs::Metadata::created, stub_created)]
#[kani::stub(std::fs::Metadata::modified, stub_modified)]
#[kani::stub(std::fs::Metadata::accessed, stub_accessed)]
#[kani::stub(alloc::fmt::format, stub_format_c08)]
#[kani::unwind(8)]
fn c08_subgroup_times_bounded() {
    let (tc, tm, ta) = (times(), times(), times());
    unsafe {
        T_CREATED = tc;
        T_MODIFIED = tm;
        T_ACCESSED = ta;
    }
    let sg = FileSubGroup { files: vec![pmi(b'a', 0), pmi(b'b', 1)] };
    let secs = |r: Result<SystemTime, Error>| -> u64 {
        let v = match &r {
            Ok(t) => t.duration_since(SystemTime::UNIX_EPOCH).unwrap().as_secs(),
            Err(_) => u64::MAX,
        };
        std::mem::forget(r);
        v
    };
    assert!(secs(sg.created()) == std::cmp::min(tc[0], tc[1]) as u64, "C08.subgroup.created_is_the_earliest_creation_of_its_files");
    assert!(secs(sg.modified()) == std::cmp::max(tm[0], tm[1]) as u64, "C08.subgroup.modified_is_the_latest_modification_of_its_files");
    assert!(secs(sg.accessed()) == std::cmp::max(ta[0], ta[1]) as u64, "C08.subgroup.accessed_is_the_latest_access_of_its_files");
    std::mem::forget(sg);
    kani::cover!(tc[0] != tc[1], "cover.different_times");
}
