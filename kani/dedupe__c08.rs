//! verif child module of crate::dedupe — C08: sub-groups (hard-link sets, isolated roots) are kept or dropped as a
//! whole, and the nesting / report-order priorities rank sub-groups as documented (bounded stand-ins).
#![allow(static_mut_refs)]
use super::*;
use crate::file::verif_file::fake_metadata;
use crate::path::verif_path::{p1, p2, tag};

static mut KEEP: [bool; 3] = [false; 3]; // path-level --keep-name / --keep-path decision per file
static mut DROP: [bool; 3] = [false; 3]; // path-level --name / --path decision per file

fn idx(p: &Path) -> usize {
    (tag(p) - b'a') as usize
}

/// Assumed contracts of the path-level pattern tests (glob matching needs the regex engine): arbitrary per file.
fn stub_should_keep(path: &Path, _config: &DedupeConfig) -> bool {
    unsafe { KEEP[idx(path)] }
}

fn stub_may_drop(path: &Path, _config: &DedupeConfig) -> bool {
    unsafe { DROP[idx(path)] }
}

fn pm(name: u8, deep: bool) -> Arc<PathAndMetadata> {
    let path = if deep { p2(b"d", &[name]) } else { p1(&[name]) };
    Arc::new(PathAndMetadata { path, metadata: fake_metadata(0) })
}

#[kani::proof]
#[kani::stub(crate::dedupe::should_keep, stub_should_keep)]
#[kani::stub(crate::dedupe::may_drop, stub_may_drop)]
#[kani::unwind(6)]
fn c08_subgroup_keep_drop_bounded() {
    let n: usize = kani::any();
    kani::assume(n >= 1 && n <= 3);
    unsafe {
        KEEP = [kani::any(), kani::any(), kani::any()];
        DROP = [kani::any(), kani::any(), kani::any()];
    }
    let mut files = Vec::new();
    files.push(pm(b'a', false));
    if n >= 2 {
        files.push(pm(b'b', false));
    }
    if n >= 3 {
        files.push(pm(b'c', false));
    }
    let sg = FileSubGroup { files };
    let config = DedupeConfig::default();
    let keep = sg.should_keep(&config);
    let drop = sg.may_drop(&config);
    unsafe {
        let any_keep = KEEP[0] || (n >= 2 && KEEP[1]) || (n >= 3 && KEEP[2]);
        let all_drop = DROP[0] && (n < 2 || DROP[1]) && (n < 3 || DROP[2]);
        // a link set / root is protected as soon as ONE of its paths matches a keep pattern ...
        assert!(keep == any_keep, "C08.subgroup.kept_if_any_path_matches_a_keep_pattern");
        // ... and may be dropped only if EVERY one of its paths matches the drop patterns
        assert!(drop == all_drop, "C08.subgroup.droppable_only_if_every_path_matches_the_drop_patterns");
        kani::cover!(n == 3 && !drop && DROP[0] && DROP[1], "cover.partially_matching_set_is_not_droppable");
        kani::cover!(n == 3 && keep && !KEEP[0], "cover.kept_by_a_later_path");
    }
    std::mem::forget(sg);
    std::mem::forget(config);
}

fn order_of(files: &[FileSubGroup<Arc<PathAndMetadata>>]) -> [u8; 3] {
    [tag(&files[0].files[0].path), tag(&files[1].files[0].path), tag(&files[2].files[0].path)]
}

/// Three sub-groups a, b, c (report order), each of one path that is nested (d/x) or not (x). `sort_by_priority` puts the
/// sub-groups to keep FIRST is NOT what it does: it sorts so that higher priority = LATER; ties keep report order.
fn sort_harness(priority: Priority) -> ([bool; 3], [u8; 3]) {
    let deep: [bool; 3] = [kani::any(), kani::any(), kani::any()];
    let mut groups = vec![
        FileSubGroup { files: vec![pm(b'a', deep[0])] },
        FileSubGroup { files: vec![pm(b'b', deep[1])] },
        FileSubGroup { files: vec![pm(b'c', deep[2])] },
    ];
    let errs = sort_by_priority(&mut groups, &priority);
    assert!(errs.is_empty(), "C08.priority.nesting_priorities_never_fail");
    let o = order_of(&groups);
    std::mem::forget(groups);
    (deep, o)
}

fn depth_of(deep: [bool; 3], t: u8) -> usize {
    if deep[(t - b'a') as usize] { 2 } else { 1 }
}

fn sorted_stable(deep: [bool; 3], o: [u8; 3], ascending: bool) -> bool {
    let mut ok = true;
    let mut i = 0;
    while i < 2 {
        let (x, y) = (depth_of(deep, o[i]), depth_of(deep, o[i + 1]));
        if ascending && x > y || !ascending && x < y {
            ok = false;
        }
        if x == y && o[i] > o[i + 1] {
            ok = false; // ties keep the report order (stable)
        }
        i += 1;
    }
    ok
}

#[kani::proof]
#[kani::unwind(8)]
fn c08_priority_least_nested_bounded() {
    let (deep, o) = sort_harness(Priority::LeastNested);
    // higher priority (= less nested) later; equally nested replicas keep the report order
    assert!(sorted_stable(deep, o, false), "C08.priority.least_nested_sorts_descending_by_nesting_and_keeps_ties_in_report_order");
    kani::cover!(deep[0] && !deep[1], "cover.reordered");
}

#[kani::proof]
#[kani::unwind(8)]
fn c08_priority_most_nested_bounded() {
    let (deep, o) = sort_harness(Priority::MostNested);
    assert!(sorted_stable(deep, o, true), "C08.priority.most_nested_sorts_ascending_by_nesting_and_keeps_ties_in_report_order");
    kani::cover!(!deep[0] || deep[1], "cover.any");
}

#[kani::proof]
#[kani::unwind(8)]
fn c08_priority_top_bottom_bounded() {
    let (_d, o) = sort_harness(Priority::Bottom);
    assert!(o == [b'a', b'b', b'c'], "C08.priority.bottom_keeps_report_order");
    let (_d, o) = sort_harness(Priority::Top);
    assert!(o == [b'c', b'b', b'a'], "C08.priority.top_reverses_report_order");
    kani::cover!(true, "cover.reached");
}
