//! verif child module of crate::transform — C07.transform_frame: whatever the command line looks like and whatever
//! the values of `copy` (--no-copy) and `in_place` (--in-place), `make_args`, `prepare_input_file` and the Drop impls of
//! the returned handles copy to / remove only paths inside the transform's temporary directory.
#![allow(static_mut_refs)]
use super::*;
use crate::path::verif_path::p1;
use std::os::unix::ffi::OsStrExt;

static mut REMOVED_OUTSIDE_TMP: bool = false;
static mut COPIED_TO_OUTSIDE_TMP: bool = false;
static mut COPY_SOURCE_NOT_INPUT: bool = false;
static mut REMOVED_DIR_NOT_TMP: bool = false;
static mut LINKED_OR_RENAMED: bool = false; // hard_link / symlink / rename was called (aliases or moves a scanned file)
static mut WROTE_OUTSIDE_CONTRACT: bool = false; // File::create / fs::write / OpenOptions::open was called
static mut COPIED_TO_A_NAME_THAT_IS_NOT_FRESH: bool = false; // copy target differs from what random_tmp_file_name handed out
static mut REMOVES: u32 = 0;
static mut COPIES: u32 = 0;

fn inside_tmp(p: &std::path::Path) -> bool {
    let b = p.as_os_str().as_bytes();
    b.len() > 3 && b[0] == b'/' && b[1] == b't' && b[2] == b'/'
}

fn stub_remove_file<P: AsRef<std::path::Path>>(path: P) -> io::Result<()> {
    unsafe {
        REMOVES += 1;
        if !inside_tmp(path.as_ref()) {
            REMOVED_OUTSIDE_TMP = true;
        }
    }
    if kani::any() {
        Ok(())
    } else {
        Err(io::Error::from(io::ErrorKind::Other))
    }
}

fn stub_copy<P: AsRef<std::path::Path>, Q: AsRef<std::path::Path>>(from: P, to: Q) -> io::Result<u64> {
    unsafe {
        COPIES += 1;
        if !inside_tmp(to.as_ref()) {
            COPIED_TO_OUTSIDE_TMP = true;
        }
        let t = to.as_ref().as_os_str().as_bytes();
        if !(t.len() == 4 && t[0] == b'/' && t[1] == b't' && t[2] == b'/' && t[3] == b'r') {
            COPIED_TO_A_NAME_THAT_IS_NOT_FRESH = true;
        }
        let f = from.as_ref().as_os_str().as_bytes();
        if !(f.len() == 1 && f[0] == b'f') {
            COPY_SOURCE_NOT_INPUT = true;
        }
    }
    if kani::any() {
        Ok(0)
    } else {
        Err(io::Error::from(io::ErrorKind::Other))
    }
}

fn stub_remove_dir_all<P: AsRef<std::path::Path>>(path: P) -> io::Result<()> {
    let b = path.as_ref().as_os_str().as_bytes();
    if !(b.len() == 2 && b[0] == b'/' && b[1] == b't') {
        unsafe { REMOVED_DIR_NOT_TMP = true };
    }
    Ok(())
}

fn stub_hard_link<P: AsRef<std::path::Path>, Q: AsRef<std::path::Path>>(_o: P, _l: Q) -> io::Result<()> {
    unsafe { LINKED_OR_RENAMED = true };
    Err(io::Error::from(io::ErrorKind::Other))
}

fn stub_symlink<P: AsRef<std::path::Path>, Q: AsRef<std::path::Path>>(_o: P, _l: Q) -> io::Result<()> {
    unsafe { LINKED_OR_RENAMED = true };
    Err(io::Error::from(io::ErrorKind::Other))
}

fn stub_rename<P: AsRef<std::path::Path>, Q: AsRef<std::path::Path>>(_o: P, _l: Q) -> io::Result<()> {
    unsafe { LINKED_OR_RENAMED = true };
    Err(io::Error::from(io::ErrorKind::Other))
}

fn stub_file_create<P: AsRef<std::path::Path>>(_p: P) -> io::Result<File> {
    unsafe { WROTE_OUTSIDE_CONTRACT = true };
    Err(io::Error::from(io::ErrorKind::Other))
}

fn stub_fs_write<P: AsRef<std::path::Path>, C: AsRef<[u8]>>(_p: P, _c: C) -> io::Result<()> {
    unsafe { WROTE_OUTSIDE_CONTRACT = true };
    Err(io::Error::from(io::ErrorKind::Other))
}

/// Opening the input for reading (stdin redirection) is allowed.
fn stub_file_open<P: AsRef<std::path::Path>>(_p: P) -> io::Result<File> {
    use std::os::unix::io::FromRawFd;
    if kani::any() {
        Ok(unsafe { File::from_raw_fd(3) })
    } else {
        Err(io::Error::from(io::ErrorKind::Other))
    }
}

static mut PIPE_OUTSIDE_TMP: bool = false;

fn stub_create_named_pipe(path: &std::path::Path) -> io::Result<()> {
    if !inside_tmp(path) {
        unsafe { PIPE_OUTSIDE_TMP = true };
    }
    Ok(())
}

fn stub_open_options_open<P: AsRef<std::path::Path>>(_o: &OpenOptions, _p: P) -> io::Result<File> {
    unsafe { WROTE_OUTSIDE_CONTRACT = true };
    Err(io::Error::from(io::ErrorKind::Other))
}

/// Assumed contract of `parse_command` (nom + regex, not compilable by Kani): it calls the substitution closure for
/// any subset of the variables `$IN`, `$OUT` and some other variable, and returns the substituted arguments.
fn stub_parse_command<F>(_command: &str, substitute: F) -> Vec<OsString>
where
    F: Fn(&str) -> OsString,
{
    let mut v = Vec::new();
    v.push(OsString::from("prog"));
    if kani::any() {
        v.push(substitute("X"));
    }
    if kani::any() {
        v.push(substitute("IN"));
    }
    if kani::any() {
        v.push(substitute("OUT"));
    }
    if kani::any() {
        v.push(substitute("IN"));
    }
    v
}

fn stub_random_tmp_file_name(_t: &Transform) -> PathBuf {
    PathBuf::from("/t/r")
}

fn stub_output(_t: &Transform, _input: &Path) -> PathBuf {
    PathBuf::from("/t/o")
}

#[kani::proof]
#[kani::stub(std::fs::remove_file, stub_remove_file)]
#[kani::stub(std::fs::copy, stub_copy)]
#[kani::stub(std::fs::remove_dir_all, stub_remove_dir_all)]
#[kani::stub(std::fs::hard_link, stub_hard_link)]
#[kani::stub(std::os::unix::fs::symlink, stub_symlink)]
#[kani::stub(std::fs::rename, stub_rename)]
#[kani::stub(std::fs::File::create, stub_file_create)]
#[kani::stub(std::fs::write, stub_fs_write)]
#[kani::stub(std::fs::OpenOptions::open, stub_open_options_open)]
#[kani::stub(std::fs::File::open, stub_file_open)]
#[kani::stub(create_named_pipe, stub_create_named_pipe)]
#[kani::stub(parse_command, stub_parse_command)]
#[kani::stub(Transform::random_tmp_file_name, stub_random_tmp_file_name)]
#[kani::stub(Transform::output, stub_output)]
#[kani::unwind(8)]
fn c07_transform_frame() {
    let t = Transform {
        command_str: String::new(),
        tmp_dir: PathBuf::from("/t"),
        copy: kani::any(),
        in_place: kani::any(),
        program: String::new(),
    };
    let input = p1(b"f");
    let (args, i, o) = t.make_args(&input);
    // (build_command, which calls this and assembles the std::process::Command, is out of reach: CBMC runs out of memory
    //  on Command::new / its drop glue; a change of this method's signature therefore ends as "undecided")
    let prepared = i.prepare_input_file();
    std::mem::forget(prepared);
    drop(i);
    drop(o);
    std::mem::forget(args);
    let (copy, in_place) = (t.copy, t.in_place);
    drop(t);
    unsafe {
        assert!(!COPIED_TO_OUTSIDE_TMP, "C07.transform_frame.copy_target_inside_tmp");
        assert!(!COPY_SOURCE_NOT_INPUT, "C07.transform_frame.copy_reads_the_input_file");
        // concurrent transforms of different files must not share a temporary copy (C01: same-named files in different
        // directories): the copy goes to the fresh name handed out by random_tmp_file_name
        assert!(!COPIED_TO_A_NAME_THAT_IS_NOT_FRESH, "C01.transform_tmp.copy_target_is_the_fresh_random_name");
        assert!(!REMOVED_OUTSIDE_TMP, "C07.transform_frame.remove_inside_tmp");
        assert!(!REMOVED_DIR_NOT_TMP, "C07.transform_frame.only_tmp_dir_removed_recursively");
        assert!(!LINKED_OR_RENAMED, "C07.transform_frame.scanned_files_are_copied_never_linked_or_renamed");
        assert!(!WROTE_OUTSIDE_CONTRACT, "C07.transform_frame.no_file_opened_for_writing");
        assert!(!PIPE_OUTSIDE_TMP, "C07.transform_frame.named_pipe_inside_tmp");
        kani::cover!(COPIES > 0, "cover.copied");
        kani::cover!(REMOVES > 0, "cover.removed");
        kani::cover!(in_place && !copy && REMOVES > 0, "cover.in_place_no_copy");
    }
}

