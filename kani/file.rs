//! verif child module of crate::file — fabricated metadata (assumption A8).
use super::*;

/// A `FileMetadata` whose `fs::Metadata` is zeroed memory carrying `idx` in its first word; every accessor the
/// verified code uses on it is stubbed in the harness (`std::fs::Metadata::len` → `stub_metadata_len`).
pub(crate) fn fake_metadata(idx: u64) -> FileMetadata {
    let mut m: fs::Metadata = unsafe { std::mem::zeroed() };
    unsafe { *(&mut m as *mut fs::Metadata as *mut u64) = idx; }
    FileMetadata { id: FileId { device: 1, inode: idx as InodeId }, metadata: m }
}

pub(crate) fn metadata_index(m: &fs::Metadata) -> u64 {
    unsafe { *(m as *const fs::Metadata as *const u64) }
}

pub(crate) static mut LEN_TABLE: [u64; 4] = [0; 4];

pub(crate) fn stub_metadata_len(m: &fs::Metadata) -> u64 {
    unsafe { LEN_TABLE[(metadata_index(m) & 3) as usize] }
}
