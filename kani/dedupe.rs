//! verif child module of crate::dedupe — contracts of the file-replacing kernels over a ghost file system.
//! Injected only under cfg(kani) into a scratch copy of the working tree; see /verif/DESIGN.md §3, §5 (C05, C20,
//! C18, C02.execute_frame).
//!
//! Ghost file system (assumption A2): four directory entries, selected by the first byte of the last path
//! component; the value of an entry says which bytes / which inode it holds. The same ghost operations back two
//! sets of stubs: (1) stubs of the std::fs functions, (2) stubs of the thin wrappers FsCommand::{remove, unsafe_rename,
//! hardlink, symlink, unsafe_copy, mkdirs, check_can_rename}, which are those wrappers' CONTRACTS. The `wrapper_*`
//! units prove that each real wrapper body, run over (1), refines (2); the `execute` units then use (2) for the
//! wrappers and (1) for any direct std::fs call (quick tier), or (1) only (thorough tier: real wrappers inlined).
#![allow(static_mut_refs)]
use super::*;
use crate::file::verif_file::{fake_metadata, LEN_TABLE};
use crate::log::{LogLevel, ProgressBarLength};
use crate::path::verif_path::{p1, p2, tag};
use crate::progress::{NoProgressBar, ProgressTracker};

// entries
pub(crate) const T: usize = 0; // retained file (link target)
pub(crate) const L: usize = 1; // redundant file being replaced / removed / moved
pub(crate) const X: usize = 2; // temporary sibling of L
pub(crate) const M: usize = 3; // move target
// entry values
pub(crate) const ABSENT: u8 = 0;
pub(crate) const ORIG_T: u8 = 1; // the retained file's own inode
pub(crate) const ORIG_L: u8 = 2; // the redundant file's own inode (original bytes)
pub(crate) const SYM_T: u8 = 3; // symbolic link to T
pub(crate) const CLONE_T: u8 = 4; // L's inode, extents now shared with T (identical bytes)
pub(crate) const CLONE_L: u8 = 5; // new inode sharing L's original extents (complete)
pub(crate) const COPY_L: u8 = 6; // new inode, complete copy of L's original bytes
pub(crate) const PARTIAL: u8 = 7; // new inode, incomplete copy
pub(crate) const FOREIGN: u8 = 8; // something that was there before fclones ran

pub(crate) static mut FS: [u8; 4] = [0; 4];
pub(crate) static mut WARNED: bool = false;
pub(crate) static mut MUTATIONS: u32 = 0;
pub(crate) static mut LOCK_CALLS: u32 = 0;
pub(crate) static mut LOCK_REFUSED: bool = false;
pub(crate) static mut DIRS_MADE: bool = false;
pub(crate) static mut FRAME_OK: bool = true; // no entry other than L, X, M (and M's parents) was written
pub(crate) static mut INV_KIND: u8 = 0; // which crash-point invariant the ghost operations assert
pub(crate) static mut REMOVED_SRC_AFTER_COPY_OK: bool = true;
pub(crate) static mut FOREIGN_TOUCHED: bool = false; // something that existed before the run was removed / overwritten
pub(crate) static mut UNCONTRACTED_FS_CALL: bool = false; // a std::fs entry point outside the contracts was called
pub(crate) static mut PLANNING: bool = false; // C07 units: the code under test must not change the file system at all
pub(crate) static mut FAULTS: bool = true; // false: the C20 family runs fault-free (locking is independent of faults)
// fault tape: the k-th fallible file-system step fails iff TAPE[k] (every position, every combination)
pub(crate) const TAPE_LEN: usize = 12;
pub(crate) static mut TAPE: [bool; TAPE_LEN] = [false; TAPE_LEN];
pub(crate) static mut TAPE_POS: usize = 0;

pub(crate) const INV_REPLACE: u8 = 1;
pub(crate) const INV_REMOVE: u8 = 2;
pub(crate) const INV_MOVE: u8 = 3;
pub(crate) const INV_REFLINK: u8 = 4;
pub(crate) const INV_NONE: u8 = 5; // wrapper refinement units: no invariant, effects are compared instead

pub(crate) fn slot(p: &Path) -> usize {
    match tag(p) {
        b'T' => T,
        b'L' => L,
        b'X' => X,
        _ => M,
    }
}

pub(crate) fn std_slot(p: &std::path::Path) -> usize {
    use std::os::unix::ffi::OsStrExt;
    let b = p.as_os_str().as_bytes();
    let mut start = 0;
    let mut i = 0;
    while i < b.len() {
        if b[i] == b'/' {
            start = i + 1;
        }
        i += 1;
    }
    match b[start] {
        b'T' => T,
        b'L' => L,
        b'X' => X,
        _ => M,
    }
}

/// Crash-point invariant of C05, taken from the property statement: the retained file is never touched, and the
/// redundant file either still has its original bytes at its original path, or has them under the temporary
/// sibling name, or has already been completely replaced by a link / clone / copy of identical bytes.
pub(crate) fn crash_inv() -> bool {
    unsafe {
        if INV_KIND == INV_NONE {
            return true;
        }
        let t_ok = FS[T] == ORIG_T;
        let l_ok = match INV_KIND {
            INV_REPLACE => FS[L] == ORIG_L || FS[X] == ORIG_L || FS[L] == ORIG_T || FS[L] == SYM_T,
            INV_REFLINK => FS[L] == ORIG_L || FS[L] == CLONE_T || FS[L] == CLONE_L,
            // `remove`: removing L is the operation itself; `move`: the bytes are at L, or completely at M
            INV_REMOVE => true,
            INV_MOVE => FS[L] == ORIG_L || FS[M] == ORIG_L || FS[M] == COPY_L,
            _ => false,
        };
        t_ok && l_ok
    }
}

pub(crate) fn mutated(entry: usize) {
    unsafe {
        assert!(!PLANNING, "C07.planning.no_file_system_change_while_planning");
        MUTATIONS += 1;
        if entry == T {
            FRAME_OK = false;
        }
    }
    assert!(crash_inv(), "C05.crash_point_invariant");
}

/// The error of a failed ghost operation: its kind is arbitrary among kinds that real code distinguishes
/// (a wrapper or caller that swallows one particular kind is then exercised).
pub(crate) static mut SYMBOLIC_ERROR_KINDS: bool = true;

pub(crate) fn io_err() -> io::Error {
    // (the `*_std` units, where the real wrappers call `e.kind()` on these values and re-wrap them, use one constant kind:
    //  the kind-sensitive behaviour of the wrappers is decided by the `wrapper_*` units)
    if unsafe { !SYMBOLIC_ERROR_KINDS } || kani::any() {
        io::Error::from(ErrorKind::Other)
    } else {
        io::Error::from(ErrorKind::PermissionDenied)
    }
}

/// Failure of the next fallible file-system step: nondeterministic (every position, every combination). The wrapper
/// refinement units run the same schedule twice and therefore read the decisions from a symbolic fault tape.
pub(crate) static mut USE_TAPE: bool = false;

pub(crate) fn fails() -> bool {
    unsafe {
        if !FAULTS {
            return false;
        }
        if !USE_TAPE {
            TAPE_POS += 1; // still counts the fallible steps
            return kani::any();
        }
        let k = TAPE_POS;
        TAPE_POS += 1;
        assert!(k < TAPE_LEN, "harness.fault_tape_long_enough");
        TAPE[k]
    }
}

// ---------------------------------------------------------------------------------------------------------
// ghost operations (A2): each call fails without effect or has its POSIX effect

fn gfs_remove(s: usize) -> io::Result<()> {
    if fails() || unsafe { FS[s] } == ABSENT {
        return Err(io_err());
    }
    unsafe {
        if s == L && FS[M] != COPY_L && INV_KIND == INV_MOVE {
            REMOVED_SRC_AFTER_COPY_OK = false;
        }
        if FS[s] == FOREIGN {
            FOREIGN_TOUCHED = true;
        }
        FS[s] = ABSENT;
    }
    mutated(s);
    Ok(())
}

fn gfs_rename(s: usize, t: usize) -> io::Result<()> {
    if fails() || unsafe { FS[s] } == ABSENT {
        return Err(io_err());
    }
    unsafe {
        if FS[t] == FOREIGN || FS[s] == FOREIGN {
            FOREIGN_TOUCHED = true;
        }
        FS[t] = FS[s];
        FS[s] = ABSENT;
        if s == T {
            FRAME_OK = false;
        }
    }
    mutated(t);
    Ok(())
}

fn gfs_hard_link(t: usize, l: usize) -> io::Result<()> {
    if fails() || unsafe { FS[l] != ABSENT || FS[t] == ABSENT } {
        return Err(io_err());
    }
    unsafe { FS[l] = FS[t] };
    mutated(l);
    Ok(())
}

fn gfs_symlink(t: usize, l: usize) -> io::Result<()> {
    if fails() || unsafe { FS[l] != ABSENT } {
        return Err(io_err());
    }
    unsafe { FS[l] = if t == T { SYM_T } else { FOREIGN } };
    mutated(l);
    Ok(())
}

fn gfs_exists(s: usize) -> bool {
    unsafe { FS[s] != ABSENT }
}

fn gfs_mkdirs() -> io::Result<()> {
    if fails() {
        return Err(io_err());
    }
    unsafe {
        assert!(!PLANNING, "C07.planning.no_file_system_change_while_planning");
        DIRS_MADE = true
    };
    Ok(())
}

/// `fs::copy` truncates/creates the target, then writes: a failure may leave a partial target.
fn gfs_copy(s: usize, t: usize) -> io::Result<()> {
    if fails() || unsafe { FS[s] } == ABSENT {
        return Err(io_err());
    }
    unsafe {
        if FS[t] == FOREIGN {
            FOREIGN_TOUCHED = true;
        }
        FS[t] = PARTIAL;
    }
    mutated(t);
    if fails() {
        return Err(io_err());
    }
    unsafe { FS[t] = if FS[s] == ORIG_L { COPY_L } else { FOREIGN } };
    mutated(t);
    Ok(())
}

// (1) stubs of the std::fs functions

pub(crate) fn std_remove_file<P: AsRef<std::path::Path>>(path: P) -> io::Result<()> {
    gfs_remove(std_slot(path.as_ref()))
}

pub(crate) fn std_rename<P: AsRef<std::path::Path>, Q: AsRef<std::path::Path>>(from: P, to: Q) -> io::Result<()> {
    gfs_rename(std_slot(from.as_ref()), std_slot(to.as_ref()))
}

pub(crate) fn std_hard_link<P: AsRef<std::path::Path>, Q: AsRef<std::path::Path>>(original: P, link: Q) -> io::Result<()> {
    gfs_hard_link(std_slot(original.as_ref()), std_slot(link.as_ref()))
}

pub(crate) fn std_symlink<P: AsRef<std::path::Path>, Q: AsRef<std::path::Path>>(original: P, link: Q) -> io::Result<()> {
    gfs_symlink(std_slot(original.as_ref()), std_slot(link.as_ref()))
}

pub(crate) fn std_exists(p: &std::path::Path) -> bool {
    gfs_exists(std_slot(p))
}

pub(crate) fn std_is_file(p: &std::path::Path) -> bool {
    gfs_exists(std_slot(p))
}

pub(crate) fn std_create_dir_all<P: AsRef<std::path::Path>>(_path: P) -> io::Result<()> {
    gfs_mkdirs()
}

pub(crate) fn std_copy<P: AsRef<std::path::Path>, Q: AsRef<std::path::Path>>(from: P, to: Q) -> io::Result<u64> {
    gfs_copy(std_slot(from.as_ref()), std_slot(to.as_ref())).map(|_| 0)
}

/// Any other way of opening a file for writing / creating / removing is outside every contract of this family.
pub(crate) fn std_file_create<P: AsRef<std::path::Path>>(_path: P) -> io::Result<std::fs::File> {
    unsafe { UNCONTRACTED_FS_CALL = true };
    Err(io_err())
}

pub(crate) fn std_file_open<P: AsRef<std::path::Path>>(_path: P) -> io::Result<std::fs::File> {
    unsafe { UNCONTRACTED_FS_CALL = true };
    Err(io_err())
}

pub(crate) fn std_open_options_open<P: AsRef<std::path::Path>>(_o: &std::fs::OpenOptions, _path: P) -> io::Result<std::fs::File> {
    unsafe { UNCONTRACTED_FS_CALL = true };
    Err(io_err())
}

pub(crate) fn std_fs_write<P: AsRef<std::path::Path>, C: AsRef<[u8]>>(_path: P, _c: C) -> io::Result<()> {
    unsafe { UNCONTRACTED_FS_CALL = true };
    Err(io_err())
}

pub(crate) fn std_remove_dir_all<P: AsRef<std::path::Path>>(_path: P) -> io::Result<()> {
    unsafe { UNCONTRACTED_FS_CALL = true };
    Err(io_err())
}

pub(crate) fn std_remove_dir<P: AsRef<std::path::Path>>(_path: P) -> io::Result<()> {
    unsafe { UNCONTRACTED_FS_CALL = true };
    Err(io_err())
}

// (2) contracts of the wrappers, as stubs

pub(crate) fn stub_unsafe_rename(source: &Path, target: &Path) -> io::Result<()> {
    gfs_rename(slot(source), slot(target))
}

pub(crate) fn stub_remove(path: &Path) -> io::Result<()> {
    gfs_remove(slot(path))
}

pub(crate) fn stub_hardlink(target: &Path, link: &Path) -> io::Result<()> {
    gfs_hard_link(slot(target), slot(link))
}

pub(crate) fn stub_symlink(target: &Path, link: &Path) -> io::Result<()> {
    gfs_symlink(slot(target), slot(link))
}

pub(crate) fn stub_check_can_rename(_source: &Path, target: &Path) -> io::Result<()> {
    if gfs_exists(slot(target)) {
        return Err(io::Error::from(ErrorKind::AlreadyExists));
    }
    Ok(())
}

pub(crate) fn stub_mkdirs(_path: &Path) -> io::Result<()> {
    gfs_mkdirs()
}

pub(crate) fn stub_unsafe_copy(source: &Path, target: &Path) -> io::Result<()> {
    gfs_copy(slot(source), slot(target))
}

pub(crate) fn stub_temp_file(_path: &Path) -> Path {
    p1(b"X")
}

/// Assumed contract of `maybe_lock` (its own contract is unit c20_maybe_lock): `Err` iff locking was requested
/// and the lock was refused; the `Some(lock)` result is abstracted to `None` (dropping it only unlocks).
pub(crate) fn stub_maybe_lock(_path: &Path, lock: bool) -> io::Result<Option<FileLock>> {
    unsafe {
        if lock {
            LOCK_CALLS += 1;
            assert!(MUTATIONS == 0, "C20.lock_before_first_mutation");
            if LOCK_REFUSED {
                return Err(io_err());
            }
        }
    }
    Ok(None)
}

pub(crate) fn stub_format(_args: std::fmt::Arguments<'_>) -> String {
    String::new()
}

pub(crate) fn stub_display(_p: &Path) -> String {
    String::new()
}

pub(crate) struct NullLog;

impl Log for NullLog {
    fn progress_bar(&self, _msg: &str, _len: ProgressBarLength) -> Arc<dyn ProgressTracker> {
        Arc::new(NoProgressBar)
    }
    fn log(&self, level: LogLevel, msg: String) {
        if let LogLevel::Warn = level {
            unsafe { WARNED = true };
        }
        std::mem::forget(msg);
    }
}

pub(crate) fn pm(name: &[u8], idx: u64) -> PathAndMetadata {
    PathAndMetadata { path: p1(name), metadata: fake_metadata(idx) }
}

fn symbolic_tape() -> [bool; TAPE_LEN] {
    let mut t = [false; TAPE_LEN];
    let mut i = 0;
    while i < TAPE_LEN {
        t[i] = kani::any();
        i += 1;
    }
    t
}

/// Initial state: T and L exist with their own inodes, nothing else. Returns (should_lock, len of L).
pub(crate) fn init(kind: u8, faults: bool, lock_may_be_refused: bool) -> (bool, u64) {
    let len: u64 = kani::any();
    unsafe {
        FS = [ORIG_T, ORIG_L, ABSENT, ABSENT];
        WARNED = false;
        MUTATIONS = 0;
        LOCK_CALLS = 0;
        LOCK_REFUSED = lock_may_be_refused && kani::any();
        DIRS_MADE = false;
        FRAME_OK = true;
        INV_KIND = kind;
        REMOVED_SRC_AFTER_COPY_OK = true;
        FOREIGN_TOUCHED = false;
        UNCONTRACTED_FS_CALL = false;
        PLANNING = false;
        FAULTS = faults;
        TAPE = if faults { symbolic_tape() } else { [false; TAPE_LEN] };
        TAPE_POS = 0;
        USE_TAPE = false;
        LEN_TABLE = [kani::any(), len, 0, 0];
    }
    (kani::any(), len)
}

/// Obligations common to every C05-family `execute` unit.
pub(crate) fn common_post(ok: Option<u64>, len: u64) {
    unsafe {
        // the retained file is never written, nothing outside {L, X, M} is
        assert!(FS[T] == ORIG_T, "C02.execute_frame.retained_untouched");
        assert!(FRAME_OK, "C02.execute_frame.only_L_X_M_written");
        assert!(!FOREIGN_TOUCHED, "C02.execute_frame.files_outside_the_groups_untouched");
        assert!(!UNCONTRACTED_FS_CALL, "C02.execute_frame.no_other_file_system_entry_point_used");
        assert!(crash_inv(), "C05.invariant_at_return");
        if let Some(n) = ok {
            assert!(n == len, "C05.reclaimed_equals_file_len");
        }
    }
}

/// Obligations of the C20 family: a refused lock is an error before any mutation; `--no-lock` never locks.
pub(crate) fn lock_post(should_lock: bool, ok: Option<u64>) {
    unsafe {
        if should_lock && LOCK_REFUSED {
            assert!(ok.is_none(), "C20.lock_first.refused_lock_is_an_error");
            assert!(MUTATIONS == 0, "C20.lock_first.no_mutation_after_refused_lock");
        } else {
            assert!(ok.is_some() && MUTATIONS > 0, "C20.lock_first.granted_or_disabled_lock_proceeds");
        }
        if should_lock {
            assert!(LOCK_CALLS >= 1, "C20.lock_first.lock_is_requested");
        } else {
            assert!(LOCK_CALLS == 0, "C20.no_lock.never_locks");
        }
        kani::cover!(should_lock && LOCK_REFUSED, "cover.refused_lock");
        kani::cover!(should_lock && !LOCK_REFUSED, "cover.granted_lock");
        kani::cover!(!should_lock, "cover.no_lock");
    }
}

pub(crate) fn outcome(r: io::Result<FileLen>) -> Option<u64> {
    let o = match &r {
        Ok(l) => Some(l.0),
        Err(_) => None,
    };
    std::mem::forget(r);
    o
}

/// Attaches the stub set of the ghost file system to a harness.
///   wrappers: the thin FsCommand wrappers are replaced by their contracts (2) and std::fs by (1) (quick tier)
///   std:      only std::fs is replaced (1): the real wrapper bodies run (thorough tier, and the wrapper units)
macro_rules! ghost_fs_unit {
    (wrappers, $name:ident, $body:block) => { ghost_fs_unit!(wrappers, $name, [], $body); };
    (std, $name:ident, $body:block) => { ghost_fs_unit!(std, $name, [], $body); };
    (std_const, $name:ident, $body:block) => { ghost_fs_unit!(std_const, $name, [], $body); };
    (std_const, $name:ident, [$(($p:path, $st:path)),*], $body:block) => {
        ghost_fs_unit!(std, $name, [$(($p, $st)),*], {
            unsafe { crate::dedupe::verif_dedupe::SYMBOLIC_ERROR_KINDS = false };
            $body
        });
    };
    (wrappers, $name:ident, [$(($p:path, $st:path)),*], $body:block) => {
        #[kani::proof]
        $(#[kani::stub($p, $st)])*
        #[kani::stub(alloc::fmt::format, crate::dedupe::verif_dedupe::stub_format)]
        #[kani::stub(crate::path::Path::display, crate::dedupe::verif_dedupe::stub_display)]
        #[kani::stub(std::fs::Metadata::len, crate::file::verif_file::stub_metadata_len)]
        #[kani::stub(crate::dedupe::FsCommand::maybe_lock, crate::dedupe::verif_dedupe::stub_maybe_lock)]
        #[kani::stub(crate::dedupe::FsCommand::temp_file, crate::dedupe::verif_dedupe::stub_temp_file)]
        #[kani::stub(crate::dedupe::FsCommand::unsafe_rename, crate::dedupe::verif_dedupe::stub_unsafe_rename)]
        #[kani::stub(crate::dedupe::FsCommand::remove, crate::dedupe::verif_dedupe::stub_remove)]
        #[kani::stub(crate::dedupe::FsCommand::hardlink, crate::dedupe::verif_dedupe::stub_hardlink)]
        #[kani::stub(crate::dedupe::FsCommand::symlink, crate::dedupe::verif_dedupe::stub_symlink)]
        #[kani::stub(crate::dedupe::FsCommand::check_can_rename, crate::dedupe::verif_dedupe::stub_check_can_rename)]
        #[kani::stub(crate::dedupe::FsCommand::mkdirs, crate::dedupe::verif_dedupe::stub_mkdirs)]
        #[kani::stub(crate::dedupe::FsCommand::unsafe_copy, crate::dedupe::verif_dedupe::stub_unsafe_copy)]
        #[kani::stub(std::fs::remove_file, crate::dedupe::verif_dedupe::std_remove_file)]
        #[kani::stub(std::fs::rename, crate::dedupe::verif_dedupe::std_rename)]
        #[kani::stub(std::fs::hard_link, crate::dedupe::verif_dedupe::std_hard_link)]
        #[kani::stub(std::os::unix::fs::symlink, crate::dedupe::verif_dedupe::std_symlink)]
        #[kani::stub(std::fs::copy, crate::dedupe::verif_dedupe::std_copy)]
        #[kani::stub(std::fs::create_dir_all, crate::dedupe::verif_dedupe::std_create_dir_all)]
        #[kani::stub(std::path::Path::exists, crate::dedupe::verif_dedupe::std_exists)]
        #[kani::stub(std::path::Path::is_file, crate::dedupe::verif_dedupe::std_is_file)]
        #[kani::stub(std::fs::File::create, crate::dedupe::verif_dedupe::std_file_create)]
        #[kani::stub(std::fs::File::open, crate::dedupe::verif_dedupe::std_file_open)]
        #[kani::stub(std::fs::OpenOptions::open, crate::dedupe::verif_dedupe::std_open_options_open)]
        #[kani::stub(std::fs::write, crate::dedupe::verif_dedupe::std_fs_write)]
        #[kani::stub(std::fs::remove_dir_all, crate::dedupe::verif_dedupe::std_remove_dir_all)]
        #[kani::stub(std::fs::remove_dir, crate::dedupe::verif_dedupe::std_remove_dir)]
        #[kani::unwind(14)]
        fn $name() $body
    };
    (std, $name:ident, [$(($p:path, $st:path)),*], $body:block) => {
        #[kani::proof]
        $(#[kani::stub($p, $st)])*
        #[kani::stub(alloc::fmt::format, crate::dedupe::verif_dedupe::stub_format)]
        #[kani::stub(crate::path::Path::display, crate::dedupe::verif_dedupe::stub_display)]
        #[kani::stub(std::fs::Metadata::len, crate::file::verif_file::stub_metadata_len)]
        #[kani::stub(crate::dedupe::FsCommand::maybe_lock, crate::dedupe::verif_dedupe::stub_maybe_lock)]
        #[kani::stub(crate::dedupe::FsCommand::temp_file, crate::dedupe::verif_dedupe::stub_temp_file)]
        #[kani::stub(std::fs::remove_file, crate::dedupe::verif_dedupe::std_remove_file)]
        #[kani::stub(std::fs::rename, crate::dedupe::verif_dedupe::std_rename)]
        #[kani::stub(std::fs::hard_link, crate::dedupe::verif_dedupe::std_hard_link)]
        #[kani::stub(std::os::unix::fs::symlink, crate::dedupe::verif_dedupe::std_symlink)]
        #[kani::stub(std::fs::copy, crate::dedupe::verif_dedupe::std_copy)]
        #[kani::stub(std::fs::create_dir_all, crate::dedupe::verif_dedupe::std_create_dir_all)]
        #[kani::stub(std::path::Path::exists, crate::dedupe::verif_dedupe::std_exists)]
        #[kani::stub(std::path::Path::is_file, crate::dedupe::verif_dedupe::std_is_file)]
        #[kani::stub(std::fs::File::create, crate::dedupe::verif_dedupe::std_file_create)]
        #[kani::stub(std::fs::File::open, crate::dedupe::verif_dedupe::std_file_open)]
        #[kani::stub(std::fs::OpenOptions::open, crate::dedupe::verif_dedupe::std_open_options_open)]
        #[kani::stub(std::fs::write, crate::dedupe::verif_dedupe::std_fs_write)]
        #[kani::stub(std::fs::remove_dir_all, crate::dedupe::verif_dedupe::std_remove_dir_all)]
        #[kani::stub(std::fs::remove_dir, crate::dedupe::verif_dedupe::std_remove_dir)]
        #[kani::unwind(14)]
        fn $name() $body
    };
}
pub(crate) use ghost_fs_unit;

// ---------------------------------------------------------------------------------------------------------
// wrapper refinement units: real wrapper body over the std-level ghost FS == the wrapper's contract stub,
// from every state of the four entries and for every fault tape

fn arbitrary_state() -> [u8; 4] {
    let s: [u8; 4] = [kani::any(), kani::any(), kani::any(), kani::any()];
    kani::assume(s[0] <= FOREIGN && s[1] <= FOREIGN && s[2] <= FOREIGN && s[3] <= FOREIGN);
    s
}

#[derive(PartialEq, Eq, Clone, Copy)]
struct Snapshot {
    fs: [u8; 4],
    pos: usize,
    dirs: bool,
    foreign: bool,
    frame: bool,
    mutations: u32,
    uncontracted: bool,
}

fn snapshot() -> Snapshot {
    unsafe {
        Snapshot { fs: FS, pos: TAPE_POS, dirs: DIRS_MADE, foreign: FOREIGN_TOUCHED, frame: FRAME_OK, mutations: MUTATIONS,
                   uncontracted: UNCONTRACTED_FS_CALL }
    }
}

fn reset(state: [u8; 4]) {
    unsafe {
        FS = state;
        TAPE_POS = 0;
        DIRS_MADE = false;
        FOREIGN_TOUCHED = false;
        FRAME_OK = true;
        MUTATIONS = 0;
        UNCONTRACTED_FS_CALL = false;
        REMOVED_SRC_AFTER_COPY_OK = true;
    }
}

fn refines<R1, R2>(real: impl FnOnce() -> io::Result<R1>, contract: impl FnOnce() -> io::Result<R2>) {
    init(INV_NONE, true, false);
    unsafe { USE_TAPE = true };
    let state = arbitrary_state();
    reset(state);
    let r1 = real();
    let ok1 = r1.is_ok();
    std::mem::forget(r1);
    let s1 = snapshot();
    reset(state);
    let r2 = contract();
    let ok2 = r2.is_ok();
    std::mem::forget(r2);
    let s2 = snapshot();
    assert!(ok1 == ok2, "C05.wrapper.fails_iff_the_system_call_fails");
    assert!(s1 == s2, "C05.wrapper.effect_is_exactly_the_contracted_system_call");
    kani::cover!(ok1, "cover.ok");
    kani::cover!(!ok1, "cover.err");
}

// each wrapper is called with the concrete paths it is used with (distinct entries, so that swapped arguments show)
ghost_fs_unit!(std, wrapper_remove, {
    let p = p1(b"L");
    refines(|| FsCommand::remove(&p), || stub_remove(&p));
});
ghost_fs_unit!(std, wrapper_unsafe_rename, {
    let (a, b) = (p1(b"L"), p1(b"X"));
    refines(|| FsCommand::unsafe_rename(&a, &b), || stub_unsafe_rename(&a, &b));
});
ghost_fs_unit!(std, wrapper_hardlink, {
    let (a, b) = (p1(b"T"), p1(b"L"));
    refines(|| FsCommand::hardlink(&a, &b), || stub_hardlink(&a, &b));
});
ghost_fs_unit!(std, wrapper_symlink, {
    let (a, b) = (p1(b"T"), p1(b"L"));
    refines(|| FsCommand::symlink(&a, &b), || stub_symlink(&a, &b));
});
ghost_fs_unit!(std, wrapper_unsafe_copy, {
    let (a, b) = (p1(b"L"), p2(b"D", b"M"));
    refines(|| FsCommand::unsafe_copy(&a, &b), || stub_unsafe_copy(&a, &b));
});
ghost_fs_unit!(std, wrapper_mkdirs, {
    let a = p1(b"D");
    refines(|| FsCommand::mkdirs(&a), || stub_mkdirs(&a));
});
ghost_fs_unit!(std, wrapper_check_can_rename, {
    let (a, b) = (p1(b"L"), p2(b"D", b"M"));
    refines(|| FsCommand::check_can_rename(&a, &b), || stub_check_can_rename(&a, &b));
});

// ---------------------------------------------------------------------------------------------------------
// C05.safe_remove — the roll-back protocol itself

fn safe_remove_body() {
    init(INV_REPLACE, true, false);
    let path = p1(b"L");
    let r = FsCommand::safe_remove(&path, |p| FsCommand::hardlink(&p1(b"T"), p), &NullLog);
    let ok = r.is_ok();
    std::mem::forget(r);
    unsafe {
        if ok {
            assert!(FS[L] == ORIG_T, "C05.safe_remove.ok_means_replaced");
            assert!(FS[X] == ABSENT || WARNED, "C05.safe_remove.temp_removed_or_warned");
        } else {
            assert!(
                FS[L] == ORIG_L || (FS[X] == ORIG_L && FS[L] == ABSENT && WARNED),
                "C05.safe_remove.err_restores_or_warns"
            );
            assert!(FS[L] != ORIG_T, "C05.safe_remove.err_means_not_replaced");
        }
        assert!(FS[T] == ORIG_T && FRAME_OK, "C02.execute_frame.retained_untouched");
        assert!(!UNCONTRACTED_FS_CALL, "C02.execute_frame.no_other_file_system_entry_point_used");
        kani::cover!(ok, "cover.ok");
        kani::cover!(!ok && FS[X] == ORIG_L, "cover.rollback_failed");
        kani::cover!(!ok && FS[L] == ORIG_L && MUTATIONS == 2, "cover.rolled_back");
    }
}
ghost_fs_unit!(wrappers, c05_safe_remove, { safe_remove_body() });
ghost_fs_unit!(std_const, c05_safe_remove_std, { safe_remove_body() });

// ---------------------------------------------------------------------------------------------------------
// execute(Remove)

fn remove_harness(faults: bool, refusable: bool) -> (bool, Option<u64>, u64) {
    let (should_lock, len) = init(INV_REMOVE, faults, refusable);
    let cmd = FsCommand::Remove { file: pm(b"L", 1) };
    let ok = outcome(cmd.execute(should_lock, &NullLog));
    std::mem::forget(cmd);
    (should_lock, ok, len)
}

fn remove_body() {
    let (_, ok, len) = remove_harness(true, false);
    common_post(ok, len);
    unsafe {
        assert!(ok.is_some() == (FS[L] == ABSENT), "C05.execute_remove.ok_iff_removed");
        assert!(FS[L] == ABSENT || FS[L] == ORIG_L, "C05.execute_remove.file_gone_or_untouched");
        assert!(FS[X] == ABSENT && FS[M] == ABSENT, "C02.execute_frame.nothing_else_created");
        kani::cover!(ok.is_some(), "cover.ok");
        kani::cover!(ok.is_none(), "cover.err");
    }
}
ghost_fs_unit!(wrappers, c05_execute_remove, { remove_body() });
ghost_fs_unit!(std_const, c05_execute_remove_std, { remove_body() });
ghost_fs_unit!(wrappers, c20_lock_first_remove, {
    let (should_lock, ok, _) = remove_harness(false, true);
    lock_post(should_lock, ok);
});

// ---------------------------------------------------------------------------------------------------------
// execute(HardLink) / execute(SoftLink): replace L by a link to T through safe_remove

fn replace_post(ok: Option<u64>, linked: u8) {
    unsafe {
        if ok.is_some() {
            assert!(FS[L] == linked, "C05.execute_link.ok_means_replaced_by_link");
            assert!(FS[X] == ABSENT || WARNED, "C05.execute_link.temp_removed_or_warned");
        } else {
            // the original path is restored; if that failed too a warning is logged and the bytes are under X
            assert!(
                FS[L] == ORIG_L || (FS[X] == ORIG_L && FS[L] == ABSENT && WARNED),
                "C05.execute_link.err_restores_or_warns"
            );
        }
        assert!(FS[M] == ABSENT, "C02.execute_frame.nothing_else_created");
        kani::cover!(ok.is_some(), "cover.ok");
        kani::cover!(ok.is_none() && FS[X] == ORIG_L, "cover.rollback_failed");
        kani::cover!(ok.is_none() && FS[L] == ORIG_L && MUTATIONS == 2, "cover.rolled_back");
    }
}

fn hardlink_harness(faults: bool, refusable: bool) -> (bool, Option<u64>, u64) {
    let (should_lock, len) = init(INV_REPLACE, faults, refusable);
    let cmd = FsCommand::HardLink { target: Arc::new(pm(b"T", 0)), link: pm(b"L", 1) };
    let ok = outcome(cmd.execute(should_lock, &NullLog));
    std::mem::forget(cmd);
    (should_lock, ok, len)
}

fn softlink_harness(faults: bool, refusable: bool) -> (bool, Option<u64>, u64) {
    let (should_lock, len) = init(INV_REPLACE, faults, refusable);
    let cmd = FsCommand::SoftLink { target: Arc::new(pm(b"T", 0)), link: pm(b"L", 1) };
    let ok = outcome(cmd.execute(should_lock, &NullLog));
    std::mem::forget(cmd);
    (should_lock, ok, len)
}

fn hardlink_body() {
    let (_, ok, len) = hardlink_harness(true, false);
    common_post(ok, len);
    replace_post(ok, ORIG_T);
}
fn softlink_body() {
    let (_, ok, len) = softlink_harness(true, false);
    common_post(ok, len);
    replace_post(ok, SYM_T);
}
ghost_fs_unit!(wrappers, c05_execute_hardlink, { hardlink_body() });
ghost_fs_unit!(std_const, c05_execute_hardlink_std, { hardlink_body() });
ghost_fs_unit!(wrappers, c05_execute_softlink, { softlink_body() });
ghost_fs_unit!(std_const, c05_execute_softlink_std, { softlink_body() });
ghost_fs_unit!(wrappers, c20_lock_first_hardlink, {
    let (should_lock, ok, _) = hardlink_harness(false, true);
    lock_post(should_lock, ok);
});
ghost_fs_unit!(wrappers, c20_lock_first_softlink, {
    let (should_lock, ok, _) = softlink_harness(false, true);
    lock_post(should_lock, ok);
});

// ---------------------------------------------------------------------------------------------------------
// execute(Move) — C18: never overwrites, source removed only after a complete copy; C05; C20

fn move_harness(faults: bool, refusable: bool, use_rename: bool, preexisting: bool) -> (bool, Option<u64>, u64) {
    let (should_lock, len) = init(INV_MOVE, faults, refusable);
    unsafe {
        if preexisting {
            FS[M] = FOREIGN;
        }
    }
    let cmd = FsCommand::Move { source: pm(b"L", 1), target: p2(b"D", b"M"), use_rename };
    let ok = outcome(cmd.execute(should_lock, &NullLog));
    std::mem::forget(cmd);
    (should_lock, ok, len)
}

fn move_post(ok: Option<u64>, len: u64, preexisting: bool) {
    // frame and crash-point obligations first: Kani assumes an assertion after checking it, so a later obligation is only
    // checked on the paths where the earlier ones held
    common_post(ok, len);
    unsafe {
        if preexisting {
            // C18: something already at the target → error, source and target untouched
            assert!(ok.is_none(), "C18.execute_move.existing_target_is_an_error");
            assert!(FS[M] == FOREIGN && !FOREIGN_TOUCHED, "C18.execute_move.existing_target_untouched");
            assert!(FS[L] == ORIG_L, "C18.execute_move.source_left_in_place");
            assert!(MUTATIONS == 0, "C18.execute_move.nothing_written_when_target_exists");
        } else if ok.is_some() {
            assert!(FS[L] == ABSENT, "C18.execute_move.ok_means_source_gone");
            assert!(FS[M] == ORIG_L || FS[M] == COPY_L, "C18.execute_move.ok_means_bytes_at_target");
            assert!(DIRS_MADE, "C18.execute_move.parents_created");
        } else {
            assert!(FS[L] == ORIG_L, "C18.execute_move.err_keeps_source");
        }
        assert!(REMOVED_SRC_AFTER_COPY_OK, "C18.execute_move.source_removed_only_after_complete_copy");
        assert!(FS[X] == ABSENT, "C02.execute_frame.nothing_else_created");
        kani::cover!(preexisting || ok.is_some(), "cover.moved_or_existing");
        kani::cover!(ok.is_none(), "cover.err");
    }
}

macro_rules! move_unit {
    ($kind:ident, $name:ident, $rename:expr, $pre:expr) => {
        ghost_fs_unit!($kind, $name, {
            let (_, ok, len) = move_harness(true, false, $rename, $pre);
            move_post(ok, len, $pre);
        });
    };
}
move_unit!(wrappers, c18_execute_move_rename, true, false);
move_unit!(wrappers, c18_execute_move_copy, false, false);
move_unit!(wrappers, c18_execute_move_rename_existing, true, true);
move_unit!(wrappers, c18_execute_move_copy_existing, false, true);
move_unit!(std_const, c18_execute_move_rename_std, true, false);
move_unit!(std_const, c18_execute_move_copy_std, false, false);
move_unit!(std_const, c18_execute_move_rename_existing_std, true, true);
move_unit!(std_const, c18_execute_move_copy_existing_std, false, true);

ghost_fs_unit!(wrappers, c20_lock_first_move, {
    let (should_lock, ok, _) = move_harness(false, true, kani::any(), false);
    lock_post(should_lock, ok);
});
