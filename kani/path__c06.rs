//! verif child module of crate::path — C06 / C08 / C14: `Path::is_prefix_of`, the relation that decides under which
//! --isolate root a file lies, compares whole components, not characters (bounded stand-in).
use super::*;
use crate::path::verif_path::{p1, p2};

fn byte() -> u8 {
    let b: u8 = kani::any();
    kani::assume(b != 0 && b != b'/');
    b
}

#[kani::proof]
#[kani::unwind(6)]
fn c06_is_prefix_of_compares_components_bounded() {
    let (x, y, w) = (byte(), byte(), byte());
    let root = std::mem::ManuallyDrop::new(p1(&[x]));
    // a file directly under a directory named y
    let under = std::mem::ManuallyDrop::new(p2(&[y], b"f"));
    assert!(root.is_prefix_of(&under) == (x == y), "C06.is_prefix_of.a_root_is_a_prefix_iff_the_leading_components_are_equal");
    // a sibling directory whose NAME merely starts with the root's name (photos / photos-backup)
    let sibling = std::mem::ManuallyDrop::new(p2(&[x, w], b"f"));
    assert!(!root.is_prefix_of(&sibling), "C06.is_prefix_of.a_sibling_whose_name_starts_with_the_roots_name_is_not_under_it");
    // every path is a prefix of itself; a longer path is never a prefix of a shorter one
    assert!(under.is_prefix_of(&under), "C06.is_prefix_of.reflexive");
    assert!(!under.is_prefix_of(&root), "C06.is_prefix_of.a_longer_path_is_not_a_prefix_of_a_shorter_one");
    kani::cover!(x == y, "cover.under_the_root");
    kani::cover!(x != y, "cover.elsewhere");
}
