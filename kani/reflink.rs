//! verif child module of crate::reflink — C05 for the Linux reflink path over the ghost file system of
//! crate::dedupe::verif_dedupe. Assumed contract of the FICLONE wrapper `reflink_overwrite` (A2): it fails
//! without touching an existing destination (it may have created an empty one), or the destination ends up
//! sharing the source's extents (identical bytes); it never changes the source.
#![allow(static_mut_refs)]
use super::*;
use crate::dedupe::verif_dedupe as g;
use crate::dedupe::verif_dedupe::{ghost_fs_unit, FS, MUTATIONS, WARNED};

pub(crate) static mut TIMES_RESTORED: u32 = 0;
pub(crate) static mut RESTORE_BEFORE_CLONE: bool = false;

fn stub_reflink_overwrite(target: &std::path::Path, link: &std::path::Path) -> io::Result<()> {
    let (s, d) = (g::std_slot(target), g::std_slot(link));
    unsafe {
        if FS[s] == g::ABSENT {
            return Err(g::io_err()); // open(src) fails
        }
        if g::fails() {
            // open(dest, O_CREAT) may already have created an empty destination
            if FS[d] == g::ABSENT && kani::any() {
                FS[d] = g::PARTIAL;
                g::mutated(d);
            }
            return Err(g::io_err());
        }
        FS[d] = match (FS[s], d) {
            (g::ORIG_L, g::X) => g::CLONE_L, // backup clone of the redundant file
            (g::ORIG_T, g::L) => g::CLONE_T, // the redundant file now shares the retained file's extents
            _ => g::FOREIGN,
        };
        g::mutated(d);
    }
    Ok(())
}

fn stub_restore_metadata(_path: &std::path::Path, _metadata: &Metadata, _restore: Restore) -> io::Result<()> {
    unsafe {
        if FS[g::L] != g::CLONE_T {
            RESTORE_BEFORE_CLONE = true;
        }
        if g::fails() {
            return Err(g::io_err());
        }
        TIMES_RESTORED += 1;
    }
    Ok(())
}

fn reflink_post(ok: bool) {
    unsafe {
        // T untouched; L holds its original bytes (own inode, or the complete backup clone moved back) or shares T's
        assert!(FS[g::T] == g::ORIG_T && g::FRAME_OK, "C02.execute_frame.retained_untouched");
        assert!(
            FS[g::L] == g::ORIG_L || FS[g::L] == g::CLONE_T || FS[g::L] == g::CLONE_L,
            "C05.reflink.destination_has_original_or_cloned_bytes"
        );
        if ok {
            assert!(FS[g::L] == g::CLONE_T, "C05.reflink.ok_means_cloned");
        }
        assert!(FS[g::X] == g::ABSENT || WARNED, "C05.reflink.backup_removed_or_warned");
        assert!(FS[g::M] == g::ABSENT, "C02.execute_frame.nothing_else_created");
        assert!(!g::UNCONTRACTED_FS_CALL, "C02.execute_frame.no_other_file_system_entry_point_used");
        kani::cover!(ok, "cover.ok");
        kani::cover!(!ok && MUTATIONS > 0, "cover.err_after_backup");
    }
}

fn linux_reflink_body() {
    g::init(g::INV_REFLINK, true, false);
    let (src, dest) = (g::pm(b"T", 0), g::pm(b"L", 1));
    let r = linux_reflink(&src, &dest, &g::NullLog);
    let ok = r.is_ok();
    std::mem::forget(r);
    std::mem::forget(src);
    std::mem::forget(dest);
    reflink_post(ok);
}
ghost_fs_unit!(wrappers, c05_linux_reflink, [(reflink_overwrite, stub_reflink_overwrite)], { linux_reflink_body() });
ghost_fs_unit!(std_const, c05_linux_reflink_std, [(reflink_overwrite, stub_reflink_overwrite)], { linux_reflink_body() });

fn reflink_cmd_harness(faults: bool, refusable: bool) -> (bool, Option<u64>, u64) {
    let (should_lock, len) = g::init(g::INV_REFLINK, faults, refusable);
    unsafe {
        TIMES_RESTORED = 0;
        RESTORE_BEFORE_CLONE = false;
    }
    let cmd = FsCommand::RefLink { target: std::sync::Arc::new(g::pm(b"T", 0)), link: g::pm(b"L", 1) };
    let ok = g::outcome(cmd.execute(should_lock, &g::NullLog));
    std::mem::forget(cmd);
    (should_lock, ok, len)
}

fn execute_reflink_body() {
    let (_, ok, len) = reflink_cmd_harness(true, false);
    unsafe {
        assert!(!RESTORE_BEFORE_CLONE, "C05.reflink.metadata_restored_only_after_clone");
    }
    g::common_post(ok, len);
    reflink_post(ok.is_some());
}
ghost_fs_unit!(wrappers, c05_execute_reflink,
    [(reflink_overwrite, stub_reflink_overwrite), (restore_metadata, stub_restore_metadata)], { execute_reflink_body() });
ghost_fs_unit!(std_const, c05_execute_reflink_std,
    [(reflink_overwrite, stub_reflink_overwrite), (restore_metadata, stub_restore_metadata)], { execute_reflink_body() });
ghost_fs_unit!(wrappers, c20_lock_first_reflink,
    [(reflink_overwrite, stub_reflink_overwrite), (restore_metadata, stub_restore_metadata)], {
    let (should_lock, ok, _) = reflink_cmd_harness(false, true);
    g::lock_post(should_lock, ok);
});
