//! verif child module of crate::dedupe — C07 (--dry-run never modifies anything): the planning helper
//! `are_on_same_mount`, which `dedupe_script` calls also under --dry-run, performs no file-system operation at all
//! (every std::fs entry point is a recording stub of the ghost file system).
#![allow(static_mut_refs)]
use super::*;
use crate::dedupe::verif_dedupe::{ghost_fs_unit, init, DIRS_MADE, INV_NONE, MUTATIONS, UNCONTRACTED_FS_CALL};
use crate::path::verif_path::{p1, p2};

static mut SAME: bool = false;

/// Assumed contract of DiskDevices::get_mount_point (mount table + path prefix tests): some mount point, chosen arbitrarily.
fn stub_get_mount_point(_d: &DiskDevices, path: &Path) -> &'static Path {
    let first = crate::path::verif_path::tag(path) == b'M';
    let name: &[u8] = if unsafe { SAME } || first { b"m1" } else { b"m2" };
    Box::leak(Box::new(p1(name)))
}

ghost_fs_unit!(wrappers, c07_are_on_same_mount_is_pure,
    [(crate::device::DiskDevices::get_mount_point, stub_get_mount_point)], {
    init(INV_NONE, true, false);
    unsafe { crate::dedupe::verif_dedupe::PLANNING = true };
    unsafe { SAME = kani::any() };
    let devices: std::mem::ManuallyDrop<DiskDevices> =
        std::mem::ManuallyDrop::new(unsafe { std::mem::MaybeUninit::<DiskDevices>::zeroed().assume_init() });
    let r = PartitionedFileGroup::are_on_same_mount(&devices, &p1(b"L"), &p2(b"D", b"M"));
    unsafe {
        assert!(MUTATIONS == 0 && !DIRS_MADE, "C07.planning.are_on_same_mount_changes_nothing");
        assert!(!UNCONTRACTED_FS_CALL, "C07.planning.are_on_same_mount_opens_or_creates_nothing");
        assert!(r == SAME, "C07.planning.are_on_same_mount_compares_the_mount_points");
        kani::cover!(r, "cover.same");
        kani::cover!(!r, "cover.different");
    }
});
