//! verif child module of crate::cache — access to the private fields of `Key` for the hasher-flow unit (C12).
#![allow(static_mut_refs)]
use super::*;

/// a 16-byte hash built from a slice (FileHash::from(u128) grows a Vec from a dangling pointer, which confused CBMC's
/// memory model in these units depending on the layout of unrelated symbolic statics)
fn hash16(first: u8) -> FileHash {
    let b: [u8; 16] = [first, 0, 0, 0, 0, 0, 0, 0, 0, 0, 0, 0, 0, 0, 0, 0];
    FileHash::from(&b[..])
}

pub(crate) fn key_matches(key: &Key, inode: u64, pos: u64, len: u64) -> bool {
    key.file_id.inode == inode as crate::file::InodeId && key.file_id.device == 1 && key.chunk_pos.0 == pos && key.chunk_len.0 == len
}

// ---------------------------------------------------------------------------------------------------------
// C12.put_get_records — HashCache::put / HashCache::get over a ghost database (typed_sled::Tree stubbed): what is
// written for a file, and when a stored entry is served, including the millisecond conversion of the modification time.


static mut INSERTS: u32 = 0;
static mut INSERT_KEY_OK: bool = false;
static mut INSERTED_MS: u64 = 0;
static mut INSERTED_LEN: u64 = 0;
static mut INSERTED_DATA_LEN: u64 = 0;
static mut INSERTED_HASH: u128 = 0;
static mut EXISTS: bool = false;
static mut STORED_PRESENT: bool = false;
static mut STORED_MS: u64 = 0;
static mut STORED_FILE_SIZE: u64 = 0;
static mut STORED_DATA_SIZE: u64 = 0;
static mut GETS: u32 = 0;
static mut MTIME_S: u64 = 0; // seconds since the epoch
static mut MTIME_NS: u32 = 0; // + nanoseconds
static mut FILE_LEN_NOW: u64 = 0;

fn key_ok(key: &Key) -> bool {
    key.file_id.device == 1 && key.file_id.inode == 7 && key.chunk_pos.0 == 3 && key.chunk_len.0 == 5
}

fn stub_tree_insert<K, V>(_t: &typed_sled::Tree<K, V>, key: &K, value: &V) -> sled::Result<Option<V>>
where
    K: typed_sled::KV,
    V: typed_sled::KV,
{
    unsafe {
        let key: &Key = &*(key as *const K as *const Key);
        let v: &CachedFileInfo = &*(value as *const V as *const CachedFileInfo);
        INSERTS += 1;
        INSERT_KEY_OK = key_ok(key);
        INSERTED_MS = v.modified_timestamp_ms;
        INSERTED_LEN = v.file_len.0;
        INSERTED_DATA_LEN = v.data_len.0;
        INSERTED_HASH = v.hash.u128_prefix();
    }
    Ok(None)
}

fn stub_tree_contains_key<K, V>(_t: &typed_sled::Tree<K, V>, _key: &K) -> sled::Result<bool>
where
    K: typed_sled::KV,
{
    Ok(unsafe { EXISTS })
}

fn stub_tree_get<K, V>(_t: &typed_sled::Tree<K, V>, key: &K) -> sled::Result<Option<V>>
where
    K: typed_sled::KV,
    V: typed_sled::KV,
{
    unsafe {
        GETS += 1;
        let key: &Key = &*(key as *const K as *const Key);
        assert!(key_ok(key), "C12.get.looks_up_the_given_key");
        if !STORED_PRESENT {
            return Ok(None);
        }
        let v = CachedFileInfo {
            modified_timestamp_ms: STORED_MS,
            file_len: FileLen(STORED_FILE_SIZE),
            data_len: FileLen(STORED_DATA_SIZE),
            hash: hash16(77),
        };
        let out: V = std::mem::transmute_copy(&v);
        std::mem::forget(v);
        Ok(Some(out))
    }
}

fn stub_try_recv<T>(_r: &crossbeam_channel::Receiver<T>) -> Result<T, crossbeam_channel::TryRecvError> {
    Err(crossbeam_channel::TryRecvError::Empty)
}

fn stub_modified(_m: &std::fs::Metadata) -> std::io::Result<std::time::SystemTime> {
    unsafe { Ok(UNIX_EPOCH + Duration::new(MTIME_S, MTIME_NS)) }
}

fn stub_len(_m: &std::fs::Metadata) -> u64 {
    unsafe { FILE_LEN_NOW }
}

fn stub_format(_args: std::fmt::Arguments<'_>) -> String {
    String::new()
}

fn fake_cache() -> HashCache {
    unsafe {
        let mut inner = std::mem::MaybeUninit::<InnerCache>::uninit();
        std::ptr::write_bytes(inner.as_mut_ptr(), 0, 1); // zero bytes: a non-zero pattern decodes to a CBMC object id
        let mut fl = std::mem::MaybeUninit::<HashCacheFlusher>::uninit();
        std::ptr::write_bytes(fl.as_mut_ptr(), 0, 1);
        HashCache { cache: Arc::new(inner.assume_init()), flusher: fl.assume_init() }
    }
}

fn setup() -> (Key, FileMetadata, u64) {
    unsafe {
        let secs: u64 = kani::any();
        let nanos: u32 = kani::any();
        kani::assume(secs < (1u64 << 40) && nanos < 1_000_000_000);
        MTIME_S = secs;
        MTIME_NS = nanos;
        FILE_LEN_NOW = kani::any();
        INSERTS = 0;
        GETS = 0;
        EXISTS = kani::any();
    }
    let key = Key { file_id: FileId { device: 1, inode: 7 }, chunk_pos: FilePos(3), chunk_len: FileLen(5) };
    let meta = crate::file::verif_file::fake_metadata(1);
    let ms = unsafe { MTIME_S * 1000 + (MTIME_NS / 1_000_000) as u64 };
    (key, meta, ms)
}

#[kani::proof]
#[kani::stub(alloc::fmt::format, stub_format)]
#[kani::stub(typed_sled::Tree::insert, stub_tree_insert)]
#[kani::stub(typed_sled::Tree::contains_key, stub_tree_contains_key)]
#[kani::stub(typed_sled::Tree::get, stub_tree_get)]
#[kani::stub(crossbeam_channel::Receiver::try_recv, stub_try_recv)]
#[kani::stub(std::fs::Metadata::modified, stub_modified)]
#[kani::stub(std::fs::Metadata::len, stub_len)]
#[kani::unwind(20)]
fn c12_put_records() {
    let (key, meta, ms) = setup();
    let data_len: u64 = kani::any();
    let cache = std::mem::ManuallyDrop::new(fake_cache());
    let r = cache.put(&key, &meta, FileLen(data_len), hash16(99));
    let ok = r.is_ok();
    std::mem::forget(r);
    unsafe {
        assert!(ok, "C12.put.succeeds_when_the_database_accepts_the_entry");
        assert!(INSERTS >= 1, "C12.put.always_writes_the_entry_also_over_an_existing_one");
        assert!(INSERT_KEY_OK, "C12.put.writes_under_the_given_key");
        assert!(INSERTED_MS == ms, "C12.put.records_the_modification_time_in_milliseconds");
        assert!(INSERTED_LEN == FILE_LEN_NOW, "C12.put.records_the_current_file_length");
        assert!(INSERTED_DATA_LEN == data_len && INSERTED_HASH == 99, "C12.put.records_data_length_and_hash");
        kani::cover!(EXISTS, "cover.entry_existed");
        kani::cover!(MTIME_NS % 1_000_000 != 0, "cover.sub_millisecond_mtime");
    }
}

#[kani::proof]
#[kani::stub(alloc::fmt::format, stub_format)]
#[kani::stub(typed_sled::Tree::insert, stub_tree_insert)]
#[kani::stub(typed_sled::Tree::contains_key, stub_tree_contains_key)]
#[kani::stub(typed_sled::Tree::get, stub_tree_get)]
#[kani::stub(crossbeam_channel::Receiver::try_recv, stub_try_recv)]
#[kani::stub(std::fs::Metadata::modified, stub_modified)]
#[kani::stub(std::fs::Metadata::len, stub_len)]
#[kani::unwind(20)]
fn c12_get_records() {
    let (key, meta, ms) = setup();
    unsafe {
        STORED_PRESENT = kani::any();
        STORED_MS = kani::any();
        STORED_FILE_SIZE = kani::any();
        STORED_DATA_SIZE = kani::any();
    }
    let cache = std::mem::ManuallyDrop::new(fake_cache());
    let r = cache.get(&key, &meta);
    let got = match &r {
        Ok(Some((l, h))) => Some((l.0, h.u128_prefix())),
        _ => None,
    };
    let ok = r.is_ok();
    std::mem::forget(r);
    unsafe {
        assert!(ok && GETS >= 1 && INSERTS == 0, "C12.get.reads_the_database_and_writes_nothing");
        let fresh = STORED_PRESENT && STORED_MS == ms && STORED_FILE_SIZE == FILE_LEN_NOW;
        assert!(got.is_some() == fresh, "C12.get.served_iff_stored_mtime_ms_and_length_equal_the_current_ones");
        if fresh {
            assert!(got == Some((STORED_DATA_SIZE, 77)), "C12.get.serves_exactly_what_was_stored");
        }
        kani::cover!(fresh, "cover.hit");
        kani::cover!(STORED_PRESENT && !fresh, "cover.stale");
    }
}



