//! verif child module of crate::cache — access to the private fields of `Key` for the hasher-flow unit (C12).
use super::*;

pub(crate) fn key_matches(key: &Key, inode: u64, pos: u64, len: u64) -> bool {
    key.file_id.inode == inode as crate::file::InodeId && key.file_id.device == 1 && key.chunk_pos.0 == pos && key.chunk_len.0 == len
}
